//go:build verif

package head

import (
	"bytes"
	"time"

	"seehuhn.de/go/postscript/funit"
)

func verifTime(tag string) time.Time {
	if verifChoose(tag+".zero", 2) == 0 {
		return time.Time{}
	}
	return time.Unix(verifI64(tag), 0)
}

func sameTime(a, b time.Time) bool {
	return a.IsZero() == b.IsZero() && (a.IsZero() || a.Unix() == b.Unix())
}

// VerifH_C12_head: every field of the head table survives, timestamps to the second; bit layouts as specified.
func VerifH_C12_head() {
	info := &Info{
		FontRevision: Version(verifU32("rev")), HasYBaseAt0: verifBool("ybase"), HasXBaseAt0: verifBool("xbase"), IsNonlinear: verifBool("nonlinear"),
		UnitsPerEm: verifU16("upem"), Created: verifTime("created"), Modified: verifTime("modified"),
		FontBBox: funit.Rect16{LLx: funit.Int16(verifI16("llx")), LLy: funit.Int16(verifI16("lly")), URx: funit.Int16(verifI16("urx")), URy: funit.Int16(verifI16("ury"))},
		IsBold: verifBool("bold"), IsItalic: verifBool("italic"), HasShadow: verifBool("shadow"), IsCondensed: verifBool("condensed"), IsExtended: verifBool("extended"),
		LowestRecPPEM: verifU16("ppem"), LocaFormat: verifI16("loca"),
	}
	enc := info.Encode()
	verifAssert(len(enc) == 54, "head is 54 bytes")
	flags := uint16(enc[16])<<8 | uint16(enc[17])
	verifAssert((flags&1 != 0) == info.HasYBaseAt0 && (flags&2 != 0) == info.HasXBaseAt0 && (flags&4 != 0) == info.IsNonlinear, "flags bits 0-2")
	mac := uint16(enc[44])<<8 | uint16(enc[45])
	verifAssert((mac&1 != 0) == info.IsBold && (mac&2 != 0) == info.IsItalic && (mac&16 != 0) == info.HasShadow && (mac&32 != 0) == info.IsCondensed && (mac&64 != 0) == info.IsExtended && mac&^0x73 == 0, "macStyle bits")
	verifAssert(enc[12] == 0x5F && enc[13] == 0x0F && enc[14] == 0x3C && enc[15] == 0xF5, "magic number")
	// timestamps are seconds since 1904-01-01
	if !info.Created.IsZero() {
		var tc int64
		for i := 0; i < 8; i++ {
			tc = tc<<8 | int64(enc[20+i])
		}
		verifAssert(tc == info.Created.Unix()+2082844800, "created = seconds since 1904")
	}
	got, err := Read(bytes.NewReader(enc))
	verifAssert(err == nil, "own table accepted")
	if err != nil {
		return
	}
	verifReach("read")
	verifAssert(got.FontRevision == info.FontRevision && got.UnitsPerEm == info.UnitsPerEm && got.FontBBox == info.FontBBox && got.LowestRecPPEM == info.LowestRecPPEM && got.LocaFormat == info.LocaFormat, "numeric fields")
	verifAssert(got.HasYBaseAt0 == info.HasYBaseAt0 && got.HasXBaseAt0 == info.HasXBaseAt0 && got.IsNonlinear == info.IsNonlinear, "flags")
	verifAssert(got.IsBold == info.IsBold && got.IsItalic == info.IsItalic && got.HasShadow == info.HasShadow && got.IsCondensed == info.IsCondensed && got.IsExtended == info.IsExtended, "style bits")
	// a time whose encoding is 0 is indistinguishable from "unset" in the file format
	if info.Created.IsZero() || info.Created.Unix() != -2082844800 {
		verifAssert(sameTime(got.Created, info.Created), "created to the second")
	}
	if info.Modified.IsZero() || info.Modified.Unix() != -2082844800 {
		verifAssert(sameTime(got.Modified, info.Modified), "modified to the second")
	}
}

// VerifH_C12_head_bytes: arbitrary 54 bytes: total, and a fixed point after one cycle.
func VerifH_C12_head_bytes() {
	in := verifBytes("in", 54)
	g1, err := Read(bytes.NewReader(in))
	if err != nil {
		return
	}
	verifReach("accepted")
	e2 := g1.Encode()
	g2, err := Read(bytes.NewReader(e2))
	verifAssert(err == nil, "re-encoded table accepted")
	if err != nil {
		return
	}
	verifAssert(g1.FontRevision == g2.FontRevision && g1.UnitsPerEm == g2.UnitsPerEm && g1.FontBBox == g2.FontBBox && g1.LowestRecPPEM == g2.LowestRecPPEM && g1.LocaFormat == g2.LocaFormat &&
		g1.HasYBaseAt0 == g2.HasYBaseAt0 && g1.HasXBaseAt0 == g2.HasXBaseAt0 && g1.IsNonlinear == g2.IsNonlinear && g1.IsBold == g2.IsBold && g1.IsItalic == g2.IsItalic &&
		g1.HasShadow == g2.HasShadow && g1.IsCondensed == g2.IsCondensed && g1.IsExtended == g2.IsExtended && sameTime(g1.Created, g2.Created) && sameTime(g1.Modified, g2.Modified), "fixed point")
	verifAssert(verifSame(g2.Encode(), e2), "second write byte-identical")
}
