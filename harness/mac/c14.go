//go:build verif

package mac

// VerifH_C14_mac: the Mac Roman codec inverts itself on its domain.
func VerifH_C14_mac() {
	// bytes -> string -> bytes, for every byte string of length 1..2
	n := 1 + verifChoose("n", verifParam("maxlen", 1))
	b := verifBytes("b", n)
	s := Decode(b)
	back := Encode(s)
	verifAssert(verifSame(back, b), "Encode(Decode(b)) == b for every byte string")
	for i := range b {
		verifAssert(DecodeOne(b[i]) == []rune(s)[i], "DecodeOne agrees with Decode")
	}
	verifReach("bytes")
}

// VerifH_C14_mac_runes: every rune of the repertoire survives, all others become '?'.
func VerifH_C14_mac_runes() {
	r := rune(verifU32("r"))
	verifAssume(r >= 0 && r <= 0x10FFFF && (r < 0xD800 || r > 0xDFFF))
	enc := Encode(string(r))
	verifAssert(len(enc) == 1, "one byte per rune")
	inRepertoire := r < 128
	for _, d := range dec {
		if d == r {
			inRepertoire = true
		}
	}
	if inRepertoire {
		verifReach("representable")
		verifAssert(Decode(enc) == string(r), "Decode(Encode(r)) == r on the repertoire")
	} else {
		verifAssert(enc[0] == '?', "unrepresentable runes become '?'")
	}
}

// Mac OS Roman, bytes 0x80..0xFF, from the Unicode Consortium's mapping table (ROMAN.TXT, with the
// euro sign at 0xDB as used since Mac OS 8.5) - written out here independently of encoding.go.
var refMacRoman = [128]rune{
	0x00C4, 0x00C5, 0x00C7, 0x00C9, 0x00D1, 0x00D6, 0x00DC, 0x00E1, 0x00E0, 0x00E2, 0x00E4, 0x00E3, 0x00E5, 0x00E7, 0x00E9, 0x00E8,
	0x00EA, 0x00EB, 0x00ED, 0x00EC, 0x00EE, 0x00EF, 0x00F1, 0x00F3, 0x00F2, 0x00F4, 0x00F6, 0x00F5, 0x00FA, 0x00F9, 0x00FB, 0x00FC,
	0x2020, 0x00B0, 0x00A2, 0x00A3, 0x00A7, 0x2022, 0x00B6, 0x00DF, 0x00AE, 0x00A9, 0x2122, 0x00B4, 0x00A8, 0x2260, 0x00C6, 0x00D8,
	0x221E, 0x00B1, 0x2264, 0x2265, 0x00A5, 0x00B5, 0x2202, 0x2211, 0x220F, 0x03C0, 0x222B, 0x00AA, 0x00BA, 0x03A9, 0x00E6, 0x00F8,
	0x00BF, 0x00A1, 0x00AC, 0x221A, 0x0192, 0x2248, 0x2206, 0x00AB, 0x00BB, 0x2026, 0x00A0, 0x00C0, 0x00C3, 0x00D5, 0x0152, 0x0153,
	0x2013, 0x2014, 0x201C, 0x201D, 0x2018, 0x2019, 0x00F7, 0x25CA, 0x00FF, 0x0178, 0x2044, 0x20AC, 0x2039, 0x203A, 0xFB01, 0xFB02,
	0x2021, 0x00B7, 0x201A, 0x201E, 0x2030, 0x00C2, 0x00CA, 0x00C1, 0x00CB, 0x00C8, 0x00CD, 0x00CE, 0x00CF, 0x00CC, 0x00D3, 0x00D4,
	0xF8FF, 0x00D2, 0x00DA, 0x00DB, 0x00D9, 0x0131, 0x02C6, 0x02DC, 0x00AF, 0x02D8, 0x02D9, 0x02DA, 0x00B8, 0x02DD, 0x02DB, 0x02C7,
}

// VerifH_C14_mac_table: the decoder agrees with the published Mac OS Roman table for every byte.
func VerifH_C14_mac_table() {
	b := verifU8("b")
	want := rune(b)
	if b >= 128 {
		want = refMacRoman[b-128]
	}
	verifAssert(DecodeOne(b) == want, "Mac Roman byte decodes to the code point of the published table")
	verifAssert(verifSame(Encode(string(want)), []byte{b}), "and that code point encodes back to the byte")
	verifReach("done")
}
