//go:build verif

package mac

// VerifH_C14_mac: the Mac Roman codec inverts itself on its domain.
func VerifH_C14_mac() {
	// bytes -> string -> bytes, for every byte string of length 1..2
	n := 1 + verifChoose("n", verifParam("maxlen", 1))
	b := verifBytes("b", n)
	s := Decode(b)
	back := Encode(s)
	verifAssert(verifSame(back, b), "Encode(Decode(b)) == b for every byte string")
	for i := range b {
		verifAssert(DecodeOne(b[i]) == []rune(s)[i], "DecodeOne agrees with Decode")
	}
	verifReach("bytes")
}

// VerifH_C14_mac_runes: every rune of the repertoire survives, all others become '?'.
func VerifH_C14_mac_runes() {
	r := rune(verifU32("r"))
	verifAssume(r >= 0 && r <= 0x10FFFF && (r < 0xD800 || r > 0xDFFF))
	enc := Encode(string(r))
	verifAssert(len(enc) == 1, "one byte per rune")
	inRepertoire := r < 128
	for _, d := range dec {
		if d == r {
			inRepertoire = true
		}
	}
	if inRepertoire {
		verifReach("representable")
		verifAssert(Decode(enc) == string(r), "Decode(Encode(r)) == r on the repertoire")
	} else {
		verifAssert(enc[0] == '?', "unrepresentable runes become '?'")
	}
}
