//go:build verif

package kern

import (
	"bytes"

	"seehuhn.de/go/postscript/funit"
	"seehuhn.de/go/sfnt/glyph"
)

type verifRS struct{ *bytes.Reader }

func (r verifRS) Size() int64 { return r.Reader.Size() }

// reference: format 0 kern subtables as specified (OpenType "kern"): horizontal subtables only;
// minimum subtables raise the value, override subtables replace it, others accumulate.
func refKern(in []byte, l, r glyph.ID) (funit.Int16, bool) {
	if len(in) < 4 || in[0] != 0 || in[1] != 0 {
		return 0, false
	}
	n := int(in[2])<<8 | int(in[3])
	pos := 4
	var val funit.Int16
	for t := 0; t < n; t++ {
		if pos+6 > len(in) {
			return 0, false
		}
		ver := int(in[pos])<<8 | int(in[pos+1])
		length := int(in[pos+2])<<8 | int(in[pos+3])
		format, cov := in[pos+4], in[pos+5]
		if length < 14 {
			return 0, false
		}
		start := pos
		pos += length
		if ver != 0 || format != 0 || cov&1 == 0 || cov&0xF4 != 0 {
			continue // not a horizontal format-0 kerning subtable
		}
		if start+8 > len(in) {
			return 0, false
		}
		np := int(in[start+6])<<8 | int(in[start+7])
		if np == 0 && start+14 > len(in) {
			// a subtable without pairs that ends inside the (unused) binary-search fields: the specification does
			// not say whether this is an error; both outcomes are accepted
			refKernEither = true
		}
		for j := 0; j < np; j++ {
			o := start + 14 + 6*j
			if o+6 > len(in) {
				return 0, false
			}
			pl := glyph.ID(in[o])<<8 | glyph.ID(in[o+1])
			pr := glyph.ID(in[o+2])<<8 | glyph.ID(in[o+3])
			v := funit.Int16(int16(uint16(in[o+4])<<8 | uint16(in[o+5])))
			if pl != l || pr != r {
				continue
			}
			switch {
			case cov&2 != 0:
				if val < v {
					val = v
				}
			case cov&8 != 0:
				val = v
			default:
				val += v
			}
		}
	}
	return val, true
}

var refKernEither bool

// VerifH_C02_kern: kern.Read on arbitrary bytes is total and agrees with the specification.
func VerifH_C02_kern() {
	nt := verifChoose("subtables", 3)
	np := verifChoose("pairs", verifParam("maxpairs", 1)+1)
	n := 4 + nt*(14+6*np) + verifChoose("extra", 2)*3
	// truncated tables: the input may end anywhere inside the last subtable (header, pair count, search fields, pairs)
	if nt > 0 {
		n -= verifChoose("cut", 14+6*np+1)
	}
	in := verifBytes("in", n)
	verifAssume(in[2] == 0 && int(in[3]) <= nt+1)
	for t := 0; t < nt; t++ {
		o := 4 + t*(14+6*np)
		// subtables laid out back to back (overlapping layouts are outside the bound), pair counts as sized
		if o+3 < n {
			verifAssume(in[o+2] == 0 && int(in[o+3]) == 14+6*np)
		}
		if o+7 < n {
			verifAssume(in[o+6] == 0 && int(in[o+7]) <= np)
		}
	}
	info, err := Read(verifRS{bytes.NewReader(in)})
	l, r := glyph.ID(verifU16("l")), glyph.ID(verifU16("r"))
	refKernEither = false
	want, ok := refKern(in, l, r)
	verifAssert((err == nil) == ok || refKernEither, "accept/reject agrees with the specification")
	if err != nil || !ok {
		return
	}
	verifReach("accepted")
	verifAssert(info[glyph.Pair{Left: l, Right: r}] == want, "kerning value of every pair as the specification defines")
	// re-encoding what was read is total
	enc := info.Encode()
	info2, err := Read(verifRS{bytes.NewReader(enc)})
	verifAssert(err == nil && info2[glyph.Pair{Left: l, Right: r}] == info[glyph.Pair{Left: l, Right: r}], "kern table re-encodes")
}
