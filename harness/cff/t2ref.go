//go:build verif

package cff

// Reference interpreter for Type 2 charstrings, written from Adobe Technical Note #5177
// ("The Type 2 Charstring Format") independently of t2decode.go.  Numbers are kept as float64
// (all operands that can occur are 16.16 values, which float64 represents exactly).

type refSeg struct {
	kind byte // 'm', 'l', 'c'
	p    [6]float64
}

type refMask struct {
	cntr bool
	bits []byte
}

type refGlyph struct {
	width        float64
	path         []refSeg
	masks        []refMask
	maskPos      []int // number of path segments before each mask
	hstem, vstem []float64
}

type refT2 struct {
	g           refGlyph
	st          []float64
	x, y        float64
	widthSeen   bool
	moved       bool
	stemsClosed bool
	nominal     float64
	subrs       [][]byte
	gsubrs      [][]byte
	storage     [32]float64
	storageSet  [32]bool
	depth       int
	ok          bool
	done        bool
}

func refBias(n int) int {
	// TN5177 section 4.7, "Subroutine operators"
	if n < 1240 {
		return 107
	}
	if n < 33900 {
		return 1131
	}
	return 32768
}

func (r *refT2) fail() { r.ok = false }

// takeWidth removes the optional leading width operand: it is present when the number of
// operands of the first stack-clearing operator exceeds (or has different parity than) what the operator takes.
func (r *refT2) takeWidth(present bool) {
	if r.widthSeen {
		return
	}
	r.widthSeen = true
	if present {
		r.g.width = r.nominal + r.st[0]
		r.st = r.st[1:]
	}
}

func (r *refT2) moveTo(dx, dy float64) {
	r.x += dx
	r.y += dy
	r.moved = true
	r.stemsClosed = true // hints must precede the path (TN5177 section 3.1)
	r.g.path = append(r.g.path, refSeg{kind: 'm', p: [6]float64{r.x, r.y}})
}

func (r *refT2) lineTo(dx, dy float64) {
	if !r.moved {
		r.fail()
	}
	r.x += dx
	r.y += dy
	r.g.path = append(r.g.path, refSeg{kind: 'l', p: [6]float64{r.x, r.y}})
}

func (r *refT2) curveTo(a, b, c, d, e, f float64) {
	if !r.moved {
		r.fail()
	}
	x1, y1 := r.x+a, r.y+b
	x2, y2 := x1+c, y1+d
	r.x, r.y = x2+e, y2+f
	r.g.path = append(r.g.path, refSeg{kind: 'c', p: [6]float64{x1, y1, x2, y2, r.x, r.y}})
}

func (r *refT2) stems(dst *[]float64) {
	if r.stemsClosed || len(r.st) < 2 {
		r.fail()
		return
	}
	r.takeWidth(len(r.st)%2 == 1)
	edge := 0.0
	for i := 0; i+1 < len(r.st); i += 2 {
		edge += r.st[i]
		lo := edge
		edge += r.st[i+1]
		*dst = append(*dst, lo, edge)
	}
	r.st = nil
}

func refAbs(v float64) float64 {
	if v < 0 {
		return -v
	}
	return v
}

// run executes one charstring (or subroutine); returns false when the glyph is finished or failed.
func (r *refT2) run(code []byte) {
	for pc := 0; pc < len(code) && r.ok && !r.done; {
		b := code[pc]
		switch {
		case b == 28:
			if pc+3 > len(code) {
				r.fail()
				return
			}
			r.st = append(r.st, float64(int16(uint16(code[pc+1])<<8|uint16(code[pc+2]))))
			pc += 3
		case b >= 32 && b <= 246:
			r.st = append(r.st, float64(int(b)-139))
			pc++
		case b >= 247 && b <= 250:
			if pc+2 > len(code) {
				r.fail()
				return
			}
			r.st = append(r.st, float64((int(b)-247)*256+int(code[pc+1])+108))
			pc += 2
		case b >= 251 && b <= 254:
			if pc+2 > len(code) {
				r.fail()
				return
			}
			r.st = append(r.st, float64(-(int(b)-251)*256-int(code[pc+1])-108))
			pc += 2
		case b == 255:
			if pc+5 > len(code) {
				r.fail()
				return
			}
			v := int32(uint32(code[pc+1])<<24 | uint32(code[pc+2])<<16 | uint32(code[pc+3])<<8 | uint32(code[pc+4]))
			r.st = append(r.st, float64(v)/65536)
			pc += 5
		default:
			op := int(b)
			pc++
			if b == 12 {
				if pc >= len(code) {
					r.fail()
					return
				}
				op = 0x0c00 | int(code[pc])
				pc++
			}
			pc = r.operator(op, code, pc)
		}
		if len(r.st) > 48 {
			r.fail() // argument stack limit (TN5177 appendix B)
		}
	}
}

func (r *refT2) operator(op int, code []byte, pc int) int {
	s := r.st
	n := len(s)
	need := func(k int) bool {
		if n < k {
			r.fail()
			return false
		}
		return true
	}
	switch op {
	case 21: // rmoveto
		r.takeWidth(n > 2)
		s = r.st
		if len(s) < 2 {
			r.fail()
			return pc
		}
		r.moveTo(s[0], s[1])
		r.st = nil
	case 22: // hmoveto
		r.takeWidth(n > 1)
		s = r.st
		if len(s) < 1 {
			r.fail()
			return pc
		}
		r.moveTo(s[0], 0)
		r.st = nil
	case 4: // vmoveto
		r.takeWidth(n > 1)
		s = r.st
		if len(s) < 1 {
			r.fail()
			return pc
		}
		r.moveTo(0, s[0])
		r.st = nil
	case 5: // rlineto: {dxa dya}+
		for i := 0; i+1 < n; i += 2 {
			r.lineTo(s[i], s[i+1])
		}
		r.st = nil
	case 6, 7: // hlineto / vlineto: alternating
		horiz := op == 6
		for i := 0; i < n; i++ {
			if horiz {
				r.lineTo(s[i], 0)
			} else {
				r.lineTo(0, s[i])
			}
			horiz = !horiz
		}
		r.st = nil
	case 8: // rrcurveto: {dxa dya dxb dyb dxc dyc}+
		for i := 0; i+5 < n; i += 6 {
			r.curveTo(s[i], s[i+1], s[i+2], s[i+3], s[i+4], s[i+5])
		}
		r.st = nil
	case 24: // rcurveline: {6}+ dxd dyd
		i := 0
		for ; i+7 < n; i += 6 {
			r.curveTo(s[i], s[i+1], s[i+2], s[i+3], s[i+4], s[i+5])
		}
		if i+1 < n {
			r.lineTo(s[i], s[i+1])
		}
		r.st = nil
	case 25: // rlinecurve: {dxa dya}+ 6
		i := 0
		for ; n-i >= 8; i += 2 {
			r.lineTo(s[i], s[i+1])
		}
		if n-i >= 6 {
			r.curveTo(s[i], s[i+1], s[i+2], s[i+3], s[i+4], s[i+5])
		}
		r.st = nil
	case 27: // hhcurveto: dy1? {dxa dxb dyb dxc}+
		i := 0
		dy := 0.0
		if n%4 == 1 {
			dy = s[0]
			i = 1
		}
		for ; i+3 < n; i += 4 {
			r.curveTo(s[i], dy, s[i+1], s[i+2], s[i+3], 0)
			dy = 0
		}
		r.st = nil
	case 26: // vvcurveto: dx1? {dya dxb dyb dyc}+
		i := 0
		dx := 0.0
		if n%4 == 1 {
			dx = s[0]
			i = 1
		}
		for ; i+3 < n; i += 4 {
			r.curveTo(dx, s[i], s[i+1], s[i+2], 0, s[i+3])
			dx = 0
		}
		r.st = nil
	case 31, 30: // hvcurveto / vhcurveto: alternating start tangent; the last curve may carry an extra final delta
		horiz := op == 31
		for i := 0; i+3 < n; i += 4 {
			last := 0.0
			if n-i == 5 {
				last = s[i+4]
			}
			if horiz {
				r.curveTo(s[i], 0, s[i+1], s[i+2], last, s[i+3])
			} else {
				r.curveTo(0, s[i], s[i+1], s[i+2], s[i+3], last)
			}
			horiz = !horiz
		}
		r.st = nil
	case 0x0c23: // flex: 12 deltas + fd
		if need(13) {
			r.curveTo(s[0], s[1], s[2], s[3], s[4], s[5])
			r.curveTo(s[6], s[7], s[8], s[9], s[10], s[11])
		}
		r.st = nil
	case 0x0c22: // hflex: dx1 dx2 dy2 dx3 dx4 dx5 dx6
		if need(7) {
			r.curveTo(s[0], 0, s[1], s[2], s[3], 0)
			r.curveTo(s[4], 0, s[5], -s[2], s[6], 0)
		}
		r.st = nil
	case 0x0c24: // hflex1: dx1 dy1 dx2 dy2 dx3 dx4 dx5 dy5 dx6
		if need(9) {
			r.curveTo(s[0], s[1], s[2], s[3], s[4], 0)
			r.curveTo(s[5], 0, s[6], s[7], s[8], -(s[1] + s[3] + s[7]))
		}
		r.st = nil
	case 0x0c25: // flex1: dx1 dy1 dx2 dy2 dx3 dy3 dx4 dy4 dx5 dy5 d6
		if need(11) {
			dx := s[0] + s[2] + s[4] + s[6] + s[8]
			dy := s[1] + s[3] + s[5] + s[7] + s[9]
			r.curveTo(s[0], s[1], s[2], s[3], s[4], s[5])
			// TN5177: d6 is the dx (or dy) of the last point; its other coordinate is that of the
			// starting point of the flex
			if refAbs(dx) > refAbs(dy) {
				r.curveTo(s[6], s[7], s[8], s[9], s[10], -dy)
			} else {
				r.curveTo(s[6], s[7], s[8], s[9], -dx, s[10])
			}
		}
		r.st = nil
	case 1, 18: // hstem, hstemhm
		r.stems(&r.g.hstem)
	case 3, 23: // vstem, vstemhm
		r.stems(&r.g.vstem)
	case 19, 20: // hintmask, cntrmask (with implicit vstem operands)
		if n >= 2 {
			r.stems(&r.g.vstem)
		} else {
			r.takeWidth(n == 1)
			r.st = nil
		}
		if !r.ok {
			return pc
		}
		r.stemsClosed = true
		ns := (len(r.g.hstem) + len(r.g.vstem)) / 2
		nb := (ns + 7) / 8
		if ns == 0 || pc+nb > len(code) {
			r.fail()
			return pc
		}
		r.g.masks = append(r.g.masks, refMask{cntr: op == 20, bits: code[pc : pc+nb]})
		r.g.maskPos = append(r.g.maskPos, len(r.g.path))
		return pc + nb
	case 14: // endchar
		r.takeWidth(n == 1 || n == 5)
		r.done = true
	case 10, 29: // callsubr, callgsubr
		if !need(1) {
			return pc
		}
		tab := r.subrs
		if op == 29 {
			tab = r.gsubrs
		}
		idx := int(s[n-1]) + refBias(len(tab))
		r.st = s[:n-1]
		if idx < 0 || idx >= len(tab) || r.depth >= 10 {
			r.fail()
			return pc
		}
		r.depth++
		r.run(tab[idx])
		r.depth--
	case 11: // return
		return 1 << 30
	case 0x0c09: // abs
		if need(1) {
			s[n-1] = refAbs(s[n-1])
		}
	case 0x0c0a: // add
		if need(2) {
			r.st = append(s[:n-2], s[n-2]+s[n-1])
		}
	case 0x0c0b: // sub
		if need(2) {
			r.st = append(s[:n-2], s[n-2]-s[n-1])
		}
	case 0x0c0e: // neg
		if need(1) {
			s[n-1] = -s[n-1]
		}
	case 0x0c18: // mul
		if need(2) {
			r.st = append(s[:n-2], s[n-2]*s[n-1])
		}
	case 0x0c12: // drop
		if need(1) {
			r.st = s[:n-1]
		}
	case 0x0c1c: // exch
		if need(2) {
			s[n-2], s[n-1] = s[n-1], s[n-2]
		}
	case 0x0c1b: // dup
		if need(1) {
			r.st = append(s, s[n-1])
		}
	case 0x0c1d: // index: num(n-1) ... num0 i index -> ... numi ; negative i copies the top element
		if need(1) {
			i := int(s[n-1])
			if i < 0 {
				i = 0
			}
			if n-2-i < 0 {
				r.fail()
				return pc
			}
			s[n-1] = s[n-2-i]
		}
	case 0x0c1e: // roll: num(N-1) ... num0 N J roll; positive J rolls towards the top of the stack
		if need(2) {
			N, J := int(s[n-2]), int(s[n-1])
			if N <= 0 || N > n-2 {
				r.fail()
				return pc
			}
			el := append([]float64{}, s[n-2-N:n-2]...)
			for i := 0; i < N; i++ {
				k := ((i+J)%N + N) % N
				s[n-2-N+k] = el[i]
			}
			r.st = s[:n-2]
		}
	case 0x0c14: // put: val i put
		if need(2) {
			i := int(s[n-1])
			if i < 0 || i >= 32 {
				r.fail()
				return pc
			}
			r.storage[i] = s[n-2]
			r.storageSet[i] = true
			r.st = s[:n-2]
		}
	case 0x0c15: // get
		if need(1) {
			i := int(s[n-1])
			if i < 0 || i >= 32 {
				r.fail()
				return pc
			}
			s[n-1] = r.storage[i]
		}
	case 0x0c03: // and
		if need(2) {
			v := 0.0
			if s[n-2] != 0 && s[n-1] != 0 {
				v = 1
			}
			r.st = append(s[:n-2], v)
		}
	case 0x0c04: // or
		if need(2) {
			v := 0.0
			if s[n-2] != 0 || s[n-1] != 0 {
				v = 1
			}
			r.st = append(s[:n-2], v)
		}
	case 0x0c05: // not
		if need(1) {
			if s[n-1] == 0 {
				s[n-1] = 1
			} else {
				s[n-1] = 0
			}
		}
	case 0x0c0f: // eq
		if need(2) {
			v := 0.0
			if s[n-2] == s[n-1] {
				v = 1
			}
			r.st = append(s[:n-2], v)
		}
	case 0x0c16: // ifelse: s1 s2 v1 v2 -> s1 if v1 <= v2 else s2
		if need(4) {
			v := s[n-3]
			if s[n-2] <= s[n-1] {
				v = s[n-4]
			}
			r.st = append(s[:n-4], v)
		}
	default:
		r.fail()
	}
	return pc
}

// refInterpret runs a charstring; ok=false when the program is malformed.
func refInterpret(code []byte, subrs, gsubrs [][]byte, defaultWidth, nominalWidth float64) (*refGlyph, bool) {
	r := &refT2{ok: true, nominal: nominalWidth, subrs: subrs, gsubrs: gsubrs}
	r.g.width = defaultWidth
	r.run(code)
	if !r.ok || !r.done {
		return nil, false
	}
	return &r.g, true
}

// sameAsRef compares a decoded Glyph with the reference result.
func sameAsRef(g *Glyph, want *refGlyph) bool {
	if g.Width != want.width || !verifSame(g.HStem, want.hstem) || !verifSame(g.VStem, want.vstem) {
		return false
	}
	// the decoder reports masks as commands interleaved with the path
	mi, pi := 0, 0
	for _, c := range g.Cmds {
		switch c.Op {
		case OpHintMask, OpCntrMask:
			if mi >= len(want.masks) || want.masks[mi].cntr != (c.Op == OpCntrMask) || want.maskPos[mi] != pi || len(c.Args) != len(want.masks[mi].bits) {
				return false
			}
			for i, a := range c.Args {
				if a != float64(want.masks[mi].bits[i]) {
					return false
				}
			}
			mi++
		default:
			if pi >= len(want.path) {
				return false
			}
			s := want.path[pi]
			pi++
			switch {
			case c.Op == OpMoveTo && s.kind == 'm', c.Op == OpLineTo && s.kind == 'l':
				if len(c.Args) != 2 || c.Args[0] != s.p[0] || c.Args[1] != s.p[1] {
					return false
				}
			case c.Op == OpCurveTo && s.kind == 'c':
				if len(c.Args) != 6 {
					return false
				}
				for i := 0; i < 6; i++ {
					if c.Args[i] != s.p[i] {
						return false
					}
				}
			default:
				return false
			}
		}
	}
	return mi == len(want.masks) && pi == len(want.path)
}
