//go:build verif

package cff

import (
	"seehuhn.de/go/postscript/type1"

	"seehuhn.de/go/sfnt/glyph"
)

// VerifH_C20_makesimple: Outlines.MakeSimple / makeNames on glyphs whose existing names are solver-chosen among
// shapes that include names looking like generated ones ("A.alt1", "orn001"), duplicates and invalid names,
// with text for some glyphs: afterwards every glyph has a valid name, names are pairwise distinct, glyph 0 is
// .notdef and every valid unique existing name is kept.
func VerifH_C20_makesimple() {
	kind1 := verifChoose("kind1", 5) // first decision (name shape of glyph 1): one process per value
	// existing names: absent, a letter, a letter with an ".altN" suffix, a generic "orn00N" name or .notdef; the
	// letters and digits are symbolic bytes, so collisions between kept and generated names are found by the solver
	letter := func() byte {
		c := verifU8("letter")
		verifAssume(c == 'A' || c == 'B')
		return c
	}
	digit := func() byte {
		c := verifU8("digit")
		verifAssume(c == '1' || c == '2')
		return c
	}
	name := func(kind int) string {
		if kind < 0 {
			kind = verifChoose("namekind", 5)
		}
		switch kind {
		case 1:
			return string([]byte{letter()})
		case 2:
			return string([]byte{letter(), '.', 'a', 'l', 't', digit()})
		case 3:
			return string([]byte{'o', 'r', 'n', '0', '0', digit()})
		case 4:
			return ".notdef"
		}
		return ""
	}
	texts := []string{"", "A", "B"}
	n := 3 + verifChoose("extra", verifParam("maxglyphs", 4)-2)
	o := &Outlines{Private: []*type1.PrivateDict{{}}, FDSelect: func(glyph.ID) int { return 0 }}
	orig := make([]string, n)
	text := map[glyph.ID]string{}
	for i := 0; i < n; i++ {
		if i == 0 {
			// glyph 0 is renamed to .notdef whatever it was called: one solver-chosen letter or nothing
			if verifBool("name0") {
				orig[0] = string([]byte{letter()})
			}
			o.Glyphs = append(o.Glyphs, &Glyph{Name: orig[0], Width: 500})
			continue
		}
		if i == 1 {
			orig[i] = name(kind1)
		} else {
			orig[i] = name(-1)
		}
		o.Glyphs = append(o.Glyphs, &Glyph{Name: orig[i], Width: 500})
		if t := texts[verifChoose("text", len(texts))]; t != "" {
			text[glyph.ID(i)] = t
		}
	}
	o.MakeSimple(text)
	verifReach("named")
	verifAssert(o.Glyphs[0].Name == ".notdef", "glyph 0 is .notdef")
	for i, g := range o.Glyphs {
		verifAssert(g.Name != "", "no empty name")
		for j := 0; j < i; j++ {
			verifAssert(o.Glyphs[j].Name != g.Name, "names pairwise distinct")
		}
	}
	for i := 1; i < n; i++ {
		if orig[i] == "" || orig[i] == ".notdef" {
			continue
		}
		first := true
		for j := 0; j < i; j++ {
			if orig[j] == orig[i] {
				first = false
			}
		}
		if first {
			verifAssert(o.Glyphs[i].Name == orig[i], "the first glyph carrying a valid name keeps it")
		}
	}
}
