//go:build verif

package cff

import (
	"bytes"
	"errors"
	"strings"

	"seehuhn.de/go/geom/matrix"
	"seehuhn.de/go/postscript/type1"
	"seehuhn.de/go/sfnt/glyph"
)

var errVerifFault = errors.New("injected I/O fault")

type verifFailWriter struct{ budget, accepted int }

func (w *verifFailWriter) Write(p []byte) (int, error) {
	if len(p) <= w.budget {
		w.budget -= len(p)
		w.accepted += len(p)
		return len(p), nil
	}
	n := w.budget
	w.budget = 0
	w.accepted += n
	return n, errVerifFault
}

func verifSmallFont() *Font {
	g0 := NewGlyph(".notdef", 500)
	g1 := NewGlyph("A", 600)
	g1.MoveTo(10, 10)
	g1.LineTo(100, 10)
	g1.LineTo(50, 200)
	return &Font{
		FontInfo: &type1.FontInfo{FontName: "Test", FontMatrix: matrix.Matrix{0.001, 0, 0, 0.001, 0, 0}},
		Outlines: &Outlines{Glyphs: []*Glyph{g0, g1}, Private: []*type1.PrivateDict{{BlueScale: defaultBlueScale, BlueShift: defaultBlueShift, BlueFuzz: defaultBlueFuzz}},
			FDSelect: func(glyph.ID) int { return 0 }},
	}
}

// VerifH_C18_cffwrite: (*cff.Font).Write reports an error whenever the destination fails, for every fault point.
func VerifH_C18_cffwrite() {
	f := verifSmallFont()
	ref := &bytes.Buffer{}
	err := f.Write(ref)
	verifAssert(err == nil && ref.Len() > 0, "reference output written")
	total := ref.Len()
	k := int(verifU16("k"))
	verifAssume(k <= total+2)
	w := &verifFailWriter{budget: k}
	err = f.Write(w)
	if k >= total {
		verifReach("success")
		verifAssert(err == nil && w.accepted == total, "success when the destination accepts everything")
	} else {
		verifReach("fault")
		verifAssert(err != nil, "a failing destination surfaces as an error")
	}
}

// VerifH_C13_offsets: whole cff.Font Write -> Read for fonts whose section offsets fall on either side of
// the DICT integer size classes: the length of the Notice string is varied over a window, so that the
// String INDEX pushes the charset / CharStrings / Private offsets across 1131|1132 (and, with the extra
// glyphs, 107|108); the glyph widths are symbolic.  The font must read back with the same strings, glyph
// count and widths, and a second Write must give the same bytes.
func VerifH_C13_offsets() {
	f := verifSmallFont()
	for i := 2 * verifChoose("extraglyphs", 2); i > 0; i-- { // 2 or 4 glyphs (the nominal width is a mean: power-of-two counts)
		g := NewGlyph(string(rune('B'+i)), 700)
		g.MoveTo(0, 0)
		g.LineTo(float64(10*i), 20)
		f.Glyphs = append(f.Glyphs, g)
	}
	f.Glyphs[1].Width = verifDyadic("w1", 0, 0, 2000)
	n := verifParam("noticebase", 900) + verifChoose("noticelen", verifParam("noticespan", 300))
	f.FontInfo.Notice = strings.Repeat("x", n)
	buf := &bytes.Buffer{}
	err := f.Write(buf)
	verifAssert(err == nil, "font written")
	if err != nil {
		return
	}
	g, err := Read(bytes.NewReader(buf.Bytes()))
	verifAssert(err == nil, "own output accepted")
	if err != nil {
		return
	}
	verifReach("read")
	verifAssert(g.FontInfo.Notice == f.FontInfo.Notice && g.FontInfo.FontName == f.FontInfo.FontName, "strings survive")
	verifAssert(len(g.Glyphs) == len(f.Glyphs), "glyph count")
	for i := range f.Glyphs {
		if i < len(g.Glyphs) {
			verifAssert(g.Glyphs[i].Width == f.Glyphs[i].Width && g.Glyphs[i].Name == f.Glyphs[i].Name, "glyph widths and names survive")
		}
	}
	buf2 := &bytes.Buffer{}
	f.Write(buf2)
	verifAssert(verifSame(buf.Bytes(), buf2.Bytes()), "writing twice gives the same bytes")
}
