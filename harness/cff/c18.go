//go:build verif

package cff

import (
	"bytes"
	"errors"

	"seehuhn.de/go/geom/matrix"
	"seehuhn.de/go/postscript/type1"
	"seehuhn.de/go/sfnt/glyph"
)

var errVerifFault = errors.New("injected I/O fault")

type verifFailWriter struct{ budget, accepted int }

func (w *verifFailWriter) Write(p []byte) (int, error) {
	if len(p) <= w.budget {
		w.budget -= len(p)
		w.accepted += len(p)
		return len(p), nil
	}
	n := w.budget
	w.budget = 0
	w.accepted += n
	return n, errVerifFault
}

func verifSmallFont() *Font {
	g0 := NewGlyph(".notdef", 500)
	g1 := NewGlyph("A", 600)
	g1.MoveTo(10, 10)
	g1.LineTo(100, 10)
	g1.LineTo(50, 200)
	return &Font{
		FontInfo: &type1.FontInfo{FontName: "Test", FontMatrix: matrix.Matrix{0.001, 0, 0, 0.001, 0, 0}},
		Outlines: &Outlines{Glyphs: []*Glyph{g0, g1}, Private: []*type1.PrivateDict{{BlueScale: defaultBlueScale, BlueShift: defaultBlueShift, BlueFuzz: defaultBlueFuzz}},
			FDSelect: func(glyph.ID) int { return 0 }},
	}
}

// VerifH_C18_cffwrite: (*cff.Font).Write reports an error whenever the destination fails, for every fault point.
func VerifH_C18_cffwrite() {
	f := verifSmallFont()
	ref := &bytes.Buffer{}
	err := f.Write(ref)
	verifAssert(err == nil && ref.Len() > 0, "reference output written")
	total := ref.Len()
	k := int(verifU16("k"))
	verifAssume(k <= total+2)
	w := &verifFailWriter{budget: k}
	err = f.Write(w)
	if k >= total {
		verifReach("success")
		verifAssert(err == nil && w.accepted == total, "success when the destination accepts everything")
	} else {
		verifReach("fault")
		verifAssert(err != nil, "a failing destination surfaces as an error")
	}
}
