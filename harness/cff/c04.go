//go:build verif

package cff

import "seehuhn.de/go/postscript/funit"

const verifTol = 1.0 / 65536

func near(a, b float64) bool {
	d := a - b
	return d <= verifTol && d >= -verifTol
}

// VerifH_C04_int: encodeInt for every int16 decodes to the same value with the shortest form.
func VerifH_C04_int() {
	x := verifI16("x")
	code := encodeInt(funit.Int16(x))
	want := 3
	if x >= -107 && x <= 107 {
		want = 1
	} else if x >= -1131 && x <= 1131 {
		want = 2
	}
	verifAssert(len(code) == want, "shortest integer form")
	prog := append(append([]byte{}, code...), byte(t2hmoveto), byte(t2endchar))
	g, ok := refInterpret(prog, nil, nil, 0, 0)
	verifAssert(ok && len(g.path) == 1 && g.path[0].p[0] == float64(x), "integer operand decodes to its value")
	verifReach("done")
}

// VerifH_C04_num: encodeNumber for every x on a 2^-18 grid: the emitted operand decodes to the reported Val,
// and Val is within half a 16.16 unit of x.
func VerifH_C04_num() {
	x := verifDyadic("x", 18, -32767<<18, 32767<<18)
	en := encodeNumber(x)
	d := en.Val - x
	verifAssert(d <= verifTol/2 && d >= -verifTol/2, "one 16.16 rounding at most")
	prog := append(append([]byte{}, en.Code...), byte(t2hmoveto), byte(t2endchar))
	g, ok := refInterpret(prog, nil, nil, 0, 0)
	verifAssert(ok && len(g.path) == 1 && g.path[0].p[0] == en.Val, "operand bytes decode to Val")
	verifReach("done")
}

func verifCoord(tag string, frac int) float64 {
	lim := int64(verifParam("coordlimit", 8000))
	return verifDyadic(tag, frac, -lim<<uint(frac), lim<<uint(frac))
}

// checkCompiled: interpret(compile(G)) == G within one 16.16 rounding per coordinate (absolute positions,
// so errors must not accumulate), stems/masks/width equal, stack depth and operand counts legal (checked
// inside the reference interpreter), glyph ended.
func checkCompiled(g *Glyph, dw, nw float64) {
	code, err := g.encodeCharString(dw, nw)
	verifAssert(err == nil, "glyph compiles")
	if err != nil {
		return
	}
	want, ok := refInterpret(code, nil, nil, dw, nw)
	verifAssert(ok, "emitted charstring is well formed (operand counts, stack depth <= 48, endchar)")
	if !ok {
		return
	}
	verifReach("compiled")
	verifAssert(near(want.width, g.Width), "width preserved")
	verifAssert(len(want.hstem) == len(g.HStem) && len(want.vstem) == len(g.VStem), "stem counts")
	for i := range g.HStem {
		if i < len(want.hstem) {
			verifAssert(near(want.hstem[i], g.HStem[i]), "hstem edges")
		}
	}
	for i := range g.VStem {
		if i < len(want.vstem) {
			verifAssert(near(want.vstem[i], g.VStem[i]), "vstem edges")
		}
	}
	pi, mi := 0, 0
	for _, c := range g.Cmds {
		switch c.Op {
		case OpHintMask, OpCntrMask:
			okm := mi < len(want.masks) && want.masks[mi].cntr == (c.Op == OpCntrMask) && want.maskPos[mi] == pi && len(want.masks[mi].bits) == len(c.Args)
			verifAssert(okm, "mask kept at its position")
			if okm {
				for i, a := range c.Args {
					verifAssert(float64(want.masks[mi].bits[i]) == a, "mask bits")
				}
			}
			mi++
		default:
			if pi >= len(want.path) {
				verifAssert(false, "path segment missing")
				return
			}
			s := want.path[pi]
			pi++
			kindOK := c.Op == OpMoveTo && s.kind == 'm' || c.Op == OpLineTo && s.kind == 'l' || c.Op == OpCurveTo && s.kind == 'c'
			verifAssert(kindOK, "segment kind preserved")
			for i := range c.Args {
				verifAssert(near(s.p[i], c.Args[i]), "coordinate within one 16.16 rounding, no accumulation")
			}
		}
	}
	verifAssert(pi == len(want.path) && mi == len(want.masks), "no extra segments or masks")
}

// VerifH_C04_glyph: moveto followed by 1..n segments of any kind with symbolic coordinates.
func VerifH_C04_glyph() {
	frac := verifParam("frac", 4)
	maxseg := verifParam("maxsegments", 1)
	// the first choice enumerates (kind of the last segment, zero pattern of the initial move) so that the
	// exploration can be sharded over processes
	sh := verifChoose("shape", verifParam("shapes", 12))
	lastKind, zeroPat := sh/4, sh%4
	n := 1 + verifChoose("segments", maxseg)
	g := &Glyph{Name: "x"}
	g.Width = verifDyadic("width", frac, -2000<<uint(frac), 2000<<uint(frac))
	mx, my := verifCoord("mx", frac), verifCoord("my", frac)
	verifAssume((mx == 0) == (zeroPat&1 != 0) && (my == 0) == (zeroPat&2 != 0))
	g.Cmds = append(g.Cmds, GlyphOp{Op: OpMoveTo, Args: []float64{mx, my}})
	for i := 0; i < n; i++ {
		kind := lastKind
		if i < n-1 {
			kind = verifChoose("kind", verifParam("shapes", 12)/4)
		}
		switch kind {
		case 0:
			g.Cmds = append(g.Cmds, GlyphOp{Op: OpLineTo, Args: []float64{verifCoord("x", frac), verifCoord("y", frac)}})
		case 2:
			g.Cmds = append(g.Cmds, GlyphOp{Op: OpCurveTo, Args: []float64{verifCoord("x", frac), verifCoord("y", frac), verifCoord("x", frac), verifCoord("y", frac), verifCoord("x", frac), verifCoord("y", frac)}})
		default:
			g.Cmds = append(g.Cmds, GlyphOp{Op: OpMoveTo, Args: []float64{verifCoord("x", frac), verifCoord("y", frac)}})
		}
	}
	dw, nw := 500.0, 40.0
	if verifParam("symwidths", 0) != 0 {
		dw = verifDyadic("dw", 0, -1000, 1000)
		nw = verifDyadic("nw", 0, -1000, 1000)
	}
	checkCompiled(g, dw, nw)
}

// VerifH_C04_stems: 0..96 stems (chunking at the 48 operand limit), hint/counter masks first or later,
// implicit vstem omission.
func VerifH_C04_stems() {
	counts := []int{0, 1, 2, 23, 24, 25, 48}
	nh := counts[verifChoose("nh", verifParam("stemchoices", 5))]
	nv := counts[verifChoose("nv", verifParam("stemchoices", 5))]
	g := &Glyph{Name: "x", Width: verifDyadic("width", 0, -2000, 2000)}
	edge := 0.0
	for i := 0; i < nh; i++ {
		// symbolic first pair, then a fixed pattern (keeps the number of symbolic terms small)
		if i == 0 {
			edge = verifDyadic("h0", 0, -500, 500)
		} else {
			edge += 7
		}
		g.HStem = append(g.HStem, edge, edge+3)
		edge += 3
	}
	edge = 0
	for i := 0; i < nv; i++ {
		if i == 0 && verifParam("symv", 0) != 0 {
			edge = verifDyadic("v0", 0, -500, 500)
		} else if i == 0 {
			edge = 20
		} else {
			edge += 5
		}
		g.VStem = append(g.VStem, edge, edge+2)
		edge += 2
	}
	nmaskBytes := (nh + nv + 7) / 8
	maskKind := verifChoose("mask", verifParam("maskkinds", 4)) // 0 none, 1 hintmask first, 2 cntrmask first, 3 hintmask after the move
	mk := func(op GlyphOpType) GlyphOp {
		c := GlyphOp{Op: op}
		for i := 0; i < nmaskBytes; i++ {
			c.Args = append(c.Args, float64(verifU8("bits")))
		}
		return c
	}
	if nh+nv == 0 {
		maskKind = 0
	}
	if maskKind == 1 {
		g.Cmds = append(g.Cmds, mk(OpHintMask))
	} else if maskKind == 2 {
		g.Cmds = append(g.Cmds, mk(OpCntrMask))
	}
	g.Cmds = append(g.Cmds, GlyphOp{Op: OpMoveTo, Args: []float64{10, 0}})
	if maskKind == 3 {
		g.Cmds = append(g.Cmds, mk(OpHintMask))
	}
	g.Cmds = append(g.Cmds, GlyphOp{Op: OpLineTo, Args: []float64{verifDyadic("lx", 0, -100, 100), 7}})
	checkCompiled(g, 500, 100)
}

// VerifH_C04_long: runs longer than the stack limit never need more than 48 operands.
func VerifH_C04_long() {
	n := 23 + verifChoose("n", 4)*2 // 23, 25, 27, 29 segments
	curves := verifChoose("curves", 2) == 1
	if curves {
		n = 7 + verifChoose("nc", 3) // 7..9 curves: 42..54 operands
	}
	g := &Glyph{Name: "x", Width: 0}
	g.Cmds = append(g.Cmds, GlyphOp{Op: OpMoveTo, Args: []float64{0, 0}})
	x, y := 0.0, 0.0
	for i := 0; i < n; i++ {
		if i == 1 {
			// one solver-chosen step (may be zero / axis aligned), the rest a fixed zig-zag
			x += verifDyadic("dx", 0, -3, 3)
			y += verifDyadic("dy", 0, -3, 3)
		} else {
			x += float64(1 + i%3)
			y += float64(2 - i%2)
		}
		if curves {
			g.Cmds = append(g.Cmds, GlyphOp{Op: OpCurveTo, Args: []float64{x - 1, y, x, y + 1, x, y}})
		} else {
			g.Cmds = append(g.Cmds, GlyphOp{Op: OpLineTo, Args: []float64{x, y}})
		}
	}
	checkCompiled(g, 0, 0)
}

// VerifH_C04_bigdelta: two in-range points more than 32767 apart.
func VerifH_C04_bigdelta() {
	g := &Glyph{Name: "x", Width: 0}
	x0 := verifDyadic("x0", 0, -32000, 32000)
	x1 := verifDyadic("x1", 0, -32000, 32000)
	verifAssume(x1-x0 > 32767 || x0-x1 > 32768)
	verifClass("delta beyond the Type 2 number range")
	g.Cmds = append(g.Cmds, GlyphOp{Op: OpMoveTo, Args: []float64{x0, 0}}, GlyphOp{Op: OpLineTo, Args: []float64{x1, 5}})
	checkCompiled(g, 0, 0)
}

// VerifH_C04_flex: two consecutive curves whose tangents at the joint are horizontal, so that the encoder's
// hflex / hflex1 edges compete with the plain curve operators; the vertical deltas are solver-chosen, which
// covers "returns to the starting y" with and without a horizontal final tangent.
func VerifH_C04_flex() {
	r := int64(verifParam("flexrange", 3))
	sy := func(tag string) float64 { return verifDyadic(tag, 0, -r, r) }
	y0 := sy("y0")
	a1y, b1y := sy("a1y"), sy("b1y")
	e2y, f2y := sy("e2y"), sy("f2y")
	x0 := verifDyadic("x0", 0, -2, 2)
	g := &Glyph{Name: "x", Width: 0}
	g.Cmds = append(g.Cmds,
		GlyphOp{Op: OpMoveTo, Args: []float64{x0, y0}},
		GlyphOp{Op: OpCurveTo, Args: []float64{x0 + 10, a1y, x0 + 20, b1y, x0 + 30, b1y}},
		GlyphOp{Op: OpCurveTo, Args: []float64{x0 + 40, b1y, x0 + 50, e2y, x0 + 60, f2y}})
	if verifChoose("tail", 2) == 1 {
		g.Cmds = append(g.Cmds, GlyphOp{Op: OpLineTo, Args: []float64{x0 + 70, sy("ty")}})
	}
	checkCompiled(g, 0, 0)
}

// VerifH_C04_accum: runs of curves / lines whose end points are not representable in 16.16 (2^-18 grid):
// every decoded coordinate must stay within one rounding of the requested absolute position, i.e. rounding
// errors must be compensated and not accumulate along the path.
func VerifH_C04_accum() {
	n := 3 + verifChoose("n", verifParam("accumextra", 1)+1)
	curves := verifChoose("curves", 2) == 1
	g := &Glyph{Name: "x", Width: 0}
	g.Cmds = append(g.Cmds, GlyphOp{Op: OpMoveTo, Args: []float64{0, 0}})
	for i := 1; i <= n; i++ {
		// end point: 10*i + f/2^18: the solver chooses the position inside the 16.16 cell (quarter steps, incl.
		// the tie f = 2) for x; y sits on a fixed tie so that y errors have the same direction in every segment
		fmax := int64(verifParam("accumfrac", 3))
		x := float64(10*i) + verifDyadic("fx", 18, 0, fmax)
		y := float64(3*i) + 2.0/(1<<18)
		if curves {
			g.Cmds = append(g.Cmds, GlyphOp{Op: OpCurveTo, Args: []float64{float64(10*i - 7), float64(3*i - 2), float64(10*i - 3), float64(3*i - 1), x, y}})
		} else {
			g.Cmds = append(g.Cmds, GlyphOp{Op: OpLineTo, Args: []float64{x, y}})
		}
	}
	checkCompiled(g, 0, 0)
}

// VerifH_C04_hvcurves: runs of three or four curves whose start and end tangents are solver-chosen to be
// horizontal, vertical or general, so that the hvcurveto / vhcurveto / hhcurveto / vvcurveto forms (including
// the optional fifth operand of the last curve) compete with rrcurveto in the encoder's shortest-path search.
func VerifH_C04_hvcurves() {
	n := 3 + verifChoose("n", verifParam("hvextra", 0)+1)
	g := &Glyph{Name: "x", Width: 0}
	g.Cmds = append(g.Cmds, GlyphOp{Op: OpMoveTo, Args: []float64{0, 0}})
	x, y := 0.0, 0.0
	tang := func(tag string, symbolic bool) (float64, float64) {
		if symbolic {
			// the direction in which the run ends: both components solver-chosen in {-3, 0, 3} x {-2, 0, 2}
			dx, dy := verifDyadic(tag+"x", 0, -1, 1), verifDyadic(tag+"y", 0, -1, 1)
			verifAssume(dx != 0 || dy != 0)
			return 3 * dx, 2 * dy
		}
		// horizontal, vertical or general (case split: the encoder's candidate edges depend on nothing else)
		switch verifChoose(tag, 3) {
		case 0:
			return 3, 0
		case 1:
			return 0, -2
		}
		return 3, -2
	}
	for i := 0; i < n; i++ {
		ax, ay := tang("a", false)
		cx, cy := tang("c", i == n-1)
		x1, y1 := x+ax, y+ay
		x2, y2 := x1+5, y1+4
		x3, y3 := x2+cx, y2+cy
		g.Cmds = append(g.Cmds, GlyphOp{Op: OpCurveTo, Args: []float64{x1, y1, x2, y2, x3, y3}})
		x, y = x3, y3
	}
	checkCompiled(g, 0, 0)
}
