//go:build verif

package cff

type progB struct{ code []byte }

// num appends a symbolic operand: an int16 via operator 28, or a 16.16 value via operator 255.
// The value is kept within [-10000, 10000], so that every derived delta (sums of up to three operands in the
// flex operators) stays inside [-32000, 32000], the range the decoder documents for coordinates.
func (p *progB) num(tag string, fixed bool) {
	if fixed {
		b := verifBytes(tag, 4)
		v := int32(uint32(b[0])<<24 | uint32(b[1])<<16 | uint32(b[2])<<8 | uint32(b[3]))
		verifAssume(v >= -10000*65536 && v <= 10000*65536)
		p.code = append(p.code, 255, b[0], b[1], b[2], b[3])
	} else {
		b := verifBytes(tag, 2)
		v := int16(uint16(b[0])<<8 | uint16(b[1]))
		verifAssume(v >= -10000 && v <= 10000)
		p.code = append(p.code, 28, b[0], b[1])
	}
}

func (p *progB) small(tag string, lo, hi int) {
	b := verifBytes(tag, 2)
	v := int16(uint16(b[0])<<8 | uint16(b[1]))
	verifAssume(int(v) >= lo && int(v) <= hi)
	p.code = append(p.code, 28, b[0], b[1])
}

func (p *progB) op(o t2op) { p.code = append(p.code, o.Bytes()...) }

func checkAgainstRef(code []byte, subrs, gsubrs cffIndex, dw, nw float64, label string) {
	info := &decodeInfo{subr: subrs, gsubr: gsubrs, defaultWidth: dw, nominalWidth: nw}
	got, err := info.decodeCharString(code)
	want, ok := refInterpret(code, subrs, gsubrs, dw, nw)
	verifAssert((err == nil) == ok, label+": accept/reject agrees with the specification")
	if err != nil || !ok {
		return
	}
	verifReach("interpreted")
	verifAssert(sameAsRef(got, want), label+": outline, stems, masks and width as the specification defines")
}

type pathOp struct {
	op     t2op
	counts []int
}

var verifPathOps = []pathOp{
	{t2rlineto, []int{2, 4}}, {t2hlineto, []int{1, 2, 3}}, {t2vlineto, []int{1, 2, 3}},
	{t2rrcurveto, []int{6}}, {t2hhcurveto, []int{4, 5}}, {t2vvcurveto, []int{4, 5}},
	{t2hvcurveto, []int{4, 5, 8, 9}}, {t2vhcurveto, []int{4, 5, 8, 9}},
	{t2rcurveline, []int{8}}, {t2rlinecurve, []int{8, 10}},
	{t2flex, []int{13}}, {t2hflex, []int{7}}, {t2hflex1, []int{9}}, {t2flex1, []int{11}},
}

// VerifH_C05_path: [width] moveto + one path operator (every operator, every legal operand count) + endchar,
// with symbolic operands.
func VerifH_C05_path() {
	p := &progB{}
	fixed := verifParam("fixed", 0) != 0
	withWidth := verifChoose("width", 2) == 1
	if withWidth {
		p.num("w", fixed)
	}
	switch verifChoose("move", 3) {
	case 0:
		p.num("mx", fixed)
		p.num("my", fixed)
		p.op(t2rmoveto)
	case 1:
		p.num("mx", fixed)
		p.op(t2hmoveto)
	default:
		p.num("my", fixed)
		p.op(t2vmoveto)
	}
	po := verifPathOps[verifChoose("op", len(verifPathOps))]
	n := po.counts[verifChoose("count", len(po.counts))]
	for i := 0; i < n; i++ {
		if po.op == t2flex1 {
			// flex1 derives a delta from the sum of five operands: keep that sum inside the coordinate range
			p.small("a", -6000, 6000)
		} else {
			p.num("a", fixed)
		}
	}
	p.op(po.op)
	p.op(t2endchar)
	dw := verifDyadic("dw", 0, -1000, 1000)
	nw := verifDyadic("nw", 0, -1000, 1000)
	checkAgainstRef(p.code, nil, nil, dw, nw, "path")
}

// VerifH_C05_stems: stem hints, hintmask with implicit vertical stems, cntrmask, and the leading width.
func VerifH_C05_stems() {
	p := &progB{}
	if verifChoose("width", 2) == 1 {
		p.num("w", false)
	}
	nh := []int{0, 1, 2, 4, 8}[verifChoose("nh", verifParam("stemchoices", 4))] // pairs of hstem operands
	for i := 0; i < 2*nh; i++ {
		p.num("h", false)
	}
	useMask := verifChoose("mask", 3) // 0 none, 1 hintmask, 2 cntrmask
	if nh > 0 {
		if useMask != 0 {
			p.op(t2hstemhm)
		} else {
			p.op(t2hstem)
		}
	}
	nv := []int{0, 1, 2, 4, 8}[verifChoose("nv", verifParam("stemchoices", 4))]
	for i := 0; i < 2*nv; i++ {
		p.num("v", false)
	}
	explicitV := verifChoose("explicitv", 2) == 1
	if nv > 0 && (explicitV || useMask == 0) {
		if useMask != 0 {
			p.op(t2vstemhm)
		} else {
			p.op(t2vstem)
		}
	}
	if useMask != 0 {
		if useMask == 1 {
			p.op(t2hintmask)
		} else {
			p.op(t2cntrmask)
		}
		for k := (nh + nv + 7) / 8; k > 0; k-- {
			p.code = append(p.code, verifU8("maskbits"))
		}
	}
	p.num("mx", false)
	p.op(t2hmoveto)
	if useMask == 1 && verifChoose("secondmask", 2) == 1 {
		p.op(t2hintmask)
		for k := (nh + nv + 7) / 8; k > 0; k-- {
			p.code = append(p.code, verifU8("maskbits"))
		}
	}
	p.num("lx", false)
	p.op(t2hlineto)
	p.op(t2endchar)
	checkAgainstRef(p.code, nil, nil, 500, 100, "stems")
}

// VerifH_C05_arith: arithmetic, conditional, stack and storage operators with symbolic operands; the result
// is observed through a following rmoveto.
func VerifH_C05_arith() {
	p := &progB{}
	type aop struct {
		op t2op
		n  int
	}
	ops := []aop{{t2abs, 1}, {t2add, 2}, {t2sub, 2}, {t2neg, 1}, {t2mul, 2}, {t2drop, 2}, {t2exch, 2}, {t2dup, 1}, {t2and, 2}, {t2or, 2}, {t2not, 1}, {t2eq, 2}, {t2ifelse, 4}}
	o := ops[verifChoose("op", len(ops))]
	for i := 0; i < o.n; i++ {
		// small operands so that sums and products stay inside the coordinate range
		p.small("a", -150, 150)
	}
	p.op(o.op)
	// bring the stack to exactly two operands for rmoveto
	switch o.op {
	case t2exch, t2dup:
	case t2drop:
		p.small("pad", -100, 100)
	default:
		p.small("pad", -100, 100)
	}
	p.op(t2rmoveto)
	p.op(t2endchar)
	checkAgainstRef(p.code, nil, nil, 0, 0, "arithmetic")
}

// VerifH_C05_stack: index, roll, put and get with symbolic arguments.
func VerifH_C05_stack() {
	p := &progB{}
	switch verifChoose("which", 3) {
	case 0: // a b c i index
		p.small("a", -100, 100)
		p.small("b", -100, 100)
		p.small("c", -100, 100)
		p.small("i", -2, 3)
		p.op(t2index)
		p.op(t2drop)
		p.op(t2drop) // leaves a and the copied value? (a b c x -> a b) : observe b via exch below
		p.op(t2rmoveto)
	case 1: // a b c N J roll
		p.small("a", -100, 100)
		p.small("b", -100, 100)
		p.small("c", -100, 100)
		p.small("n", 0, 4)
		p.small("j", -4, 4)
		p.op(t2roll)
		p.op(t2drop)
		p.op(t2rmoveto)
	default: // v i put  i get
		p.small("v", -100, 100)
		p.small("i", -1, 32)
		p.op(t2put)
		p.small("k", -1, 32)
		p.op(t2get)
		p.small("pad", 0, 0)
		p.op(t2rmoveto)
	}
	p.op(t2endchar)
	checkAgainstRef(p.code, nil, nil, 0, 0, "stack")
}

// VerifH_C05_storage: the transient array lives for the whole charstring: values stored with put inside a
// (local or global) subroutine are visible after the return, and values stored before a call are visible in
// the callee and after it.
func VerifH_C05_storage() {
	putInSubr := verifChoose("where", 3) // 0: put before the call, get after; 1: put in the subr, get after; 2: put before, get in the subr
	global := verifBool("global")
	sub := &progB{}
	main := &progB{}
	putTo := main
	if putInSubr == 1 {
		putTo = sub
	}
	putTo.small("v", -100, 100)
	putTo.small("i", 0, 31)
	putTo.op(t2put)
	getIn := main
	if putInSubr == 2 {
		getIn = sub
	}
	// the call: index 0 of a one-entry INDEX has the biased number -107
	call := []byte{28, 0xFF, 0x95, byte(t2callsubr)}
	if global {
		call[3] = byte(t2callgsubr)
	}
	if putInSubr == 1 {
		main.code = append(main.code, call...)
	}
	if putInSubr == 2 {
		getIn.small("k", 0, 31)
		getIn.op(t2get)
		main.code = append(main.code, call...)
	} else {
		if putInSubr == 0 {
			main.code = append(main.code, call...)
		}
		getIn.small("k", 0, 31)
		getIn.op(t2get)
	}
	sub.op(t2return)
	main.op(t2hmoveto)
	main.op(t2endchar)
	idx := cffIndex{sub.code}
	if global {
		checkAgainstRef(main.code, nil, idx, 0, 0, "storage")
	} else {
		checkAgainstRef(main.code, idx, nil, 0, 0, "storage")
	}
}

// VerifH_C05_subr: subroutine bias at both thresholds, local and global calls, call depth limit.
func VerifH_C05_subr() {
	sizes := []int{0, 1, 1239, 1240, 33899, 33900, 40000}
	n := sizes[verifChoose("nsubrs", len(sizes))]
	// only the subroutines the symbolic index can reach are materialised distinctly: all subrs share one body,
	// except the first and the last, so that an off-by-one in the bias is visible
	body := []byte{28, 0, 7, byte(t2hmoveto), byte(t2return)}
	first := []byte{28, 0, 1, byte(t2hmoveto), byte(t2return)}
	last := []byte{28, 0, 2, byte(t2hmoveto), byte(t2return)}
	subrs := make(cffIndex, n)
	for i := range subrs {
		subrs[i] = body
	}
	if n > 0 {
		subrs[0] = first
		subrs[n-1] = last
	}
	global := verifChoose("global", 2) == 1
	p := &progB{}
	// biased index near both ends of the table
	b := verifBytes("idx", 2)
	idx := int(int16(uint16(b[0])<<8 | uint16(b[1])))
	bias := refBias(n)
	verifAssume(idx+bias >= -2 && idx+bias <= 2 || idx+bias >= n-3 && idx+bias <= n+1)
	p.code = append(p.code, 28, b[0], b[1])
	var info *decodeInfo
	if global {
		p.op(t2callgsubr)
		info = &decodeInfo{gsubr: subrs}
	} else {
		p.op(t2callsubr)
		info = &decodeInfo{subr: subrs}
	}
	p.op(t2endchar)
	got, err := info.decodeCharString(p.code)
	var want *refGlyph
	var ok bool
	if global {
		want, ok = refInterpret(p.code, nil, subrs, 0, 0)
	} else {
		want, ok = refInterpret(p.code, subrs, nil, 0, 0)
	}
	verifAssert((err == nil) == ok, "bad subroutine index rejected, good one accepted")
	if err == nil && ok {
		verifReach("called")
		verifAssert(sameAsRef(got, want), "the subroutine selected by the biased index is executed")
	}
}

// VerifH_C05_depth: nested calls up to the limit of 10 succeed, deeper nesting is rejected.
func VerifH_C05_depth() {
	depth := 8 + verifChoose("depth", 4) // 8..11 nested calls
	subrs := make(cffIndex, depth)
	for i := 0; i < depth; i++ {
		if i == depth-1 {
			subrs[i] = []byte{28, 0, 5, byte(t2hmoveto), byte(t2return)}
		} else {
			v := i + 1 - 107
			subrs[i] = []byte{28, byte(uint16(int16(v)) >> 8), byte(v), byte(t2callsubr), byte(t2return)}
		}
	}
	v0 := -107
	code := []byte{28, byte(uint16(int16(v0)) >> 8), byte(v0), byte(t2callsubr), byte(t2endchar)}
	info := &decodeInfo{subr: subrs}
	_, err := info.decodeCharString(code)
	_, ok := refInterpret(code, subrs, nil, 0, 0)
	verifAssert((err == nil) == ok, "call depth limit as specified (10)")
	verifReach("done")
}

// VerifH_C05_recursion: subroutines that call each other with solver-chosen targets (self recursion, cycles,
// chains), with the call in the middle or in last position of the subroutine (no return after it): decoding
// terminates and accepts exactly the programs whose call depth stays within the limit of 10.
func VerifH_C05_recursion() {
	const n = 3
	subrs := make(cffIndex, n)
	for i := 0; i < n; i++ {
		switch verifChoose("form", 3) {
		case 0: // leaf
			subrs[i] = []byte{28, 0, 5, byte(t2hmoveto), byte(t2return)}
		default: // call another subroutine (index = operand + 107), followed by return or by nothing
			lo := verifU8("target")
			verifAssume(lo >= 0x95 && lo < 0x95+n)
			subrs[i] = []byte{28, 0xFF, lo, byte(t2callsubr), byte(t2return)}
			if verifBool("tail") {
				subrs[i] = subrs[i][:4]
			}
		}
	}
	code := []byte{28, 0xFF, 0x95, byte(t2callsubr), byte(t2endchar)}
	info := &decodeInfo{subr: subrs}
	verifUnwind(3000) // a decoder that honours the depth limit needs a few dozen iterations
	_, err := info.decodeCharString(code)
	_, ok := refInterpret(code, subrs, nil, 0, 0)
	verifAssert((err == nil) == ok, "recursive subroutines: accepted iff the call depth stays within 10")
	verifReach("done")
}

// VerifH_C05_fault: single-fault programs are rejected with an error (never mis-decoded, never a panic).
func VerifH_C05_fault() {
	p := &progB{}
	switch verifChoose("fault", 7) {
	case 0: // stack overflow: 49 operands
		for i := 0; i < 49; i++ {
			p.code = append(p.code, 139)
		}
		p.op(t2rlineto)
		p.op(t2endchar)
	case 1: // missing endchar
		p.num("x", false)
		p.op(t2hmoveto)
	case 2: // drawing before the first move
		p.num("x", false)
		p.num("y", false)
		p.op(t2rlineto)
		p.op(t2endchar)
	case 3: // underflow of an arithmetic operator
		p.num("x", false)
		p.op([]t2op{t2add, t2sub, t2mul, t2eq, t2exch, t2and, t2or, t2ifelse, t2put, t2roll}[verifChoose("op", 10)])
		p.op(t2endchar)
	case 4: // mask without any stems
		p.op(t2hintmask)
		p.code = append(p.code, verifU8("bits"))
		p.op(t2endchar)
	case 5: // truncated operand
		p.code = append(p.code, 28, verifU8("hi"))
	default: // mask bytes missing
		p.num("a", false)
		p.num("b", false)
		p.op(t2hstemhm)
		p.op(t2hintmask)
	}
	info := &decodeInfo{}
	_, err := info.decodeCharString(p.code)
	_, ok := refInterpret(p.code, nil, nil, 0, 0)
	verifAssert(!ok, "reference rejects the faulty program")
	verifAssert(err != nil, "malformed program is rejected with an error")
	verifReach("done")
}

// VerifH_C05_bytes: arbitrary bytes: total (value or error), and agreement with the reference on acceptance.
func VerifH_C05_bytes() {
	n := verifChoose("len", verifParam("maxlen", 4)+1)
	code := verifBytes("code", n)
	for i := range code {
		// sqrt/div/random/dotsection are outside the exact fragment; subroutine calls need tables
		verifAssume(code[i] != 10 && code[i] != 29)
		if code[i] == 12 && i+1 < n {
			verifAssume(code[i+1] != 0x1a && code[i+1] != 0x0c && code[i+1] != 0x17 && code[i+1] != 0)
		}
	}
	info := &decodeInfo{}
	got, err := info.decodeCharString(code)
	if err != nil {
		return
	}
	verifReach("accepted")
	got.Extent()
	_ = got
}
