//go:build verif

package cff

import (
	"bytes"

	"seehuhn.de/go/postscript/funit"
	"seehuhn.de/go/postscript/type1"
	"seehuhn.de/go/sfnt/glyph"
	"seehuhn.de/go/sfnt/parser"
)

type verifRS struct{ *bytes.Reader }

func (r verifRS) Size() int64 { return r.Reader.Size() }

func verifParser(b []byte) *parser.Parser { return parser.New(verifRS{bytes.NewReader(b)}) }

// VerifH_C13_int: every int32 survives a DICT encode/decode (all five size classes).
func VerifH_C13_int() {
	n := 1 + verifChoose("n", 2)
	var args []interface{}
	for i := 0; i < n; i++ {
		args = append(args, verifI32("x"))
	}
	d := cffDict{opBlueShift: args}
	enc := d.encode(&cffStrings{})
	// size classes of the Type 2 / DICT integer encoding (Adobe TN5176 table 3)
	x := args[0].(int32)
	if n == 1 {
		want := 5
		switch {
		case x >= -107 && x <= 107:
			want = 1
		case x >= -1131 && x <= 1131:
			want = 2
		case x >= -32768 && x <= 32767:
			want = 3
		}
		verifAssert(len(enc) == want+2, "shortest integer encoding is used")
	}
	got, err := decodeDict(enc, &cffStrings{})
	verifAssert(err == nil, "own DICT accepted")
	if err != nil {
		return
	}
	verifReach("decoded")
	verifAssert(len(got) == 1 && len(got[opBlueShift]) == n, "one operator with n operands")
	for i := range args {
		v, ok := got[opBlueShift][i].(int32)
		verifAssert(ok && v == args[i].(int32), "integer operand survives")
	}
}

// VerifH_C13_dict_bytes: decodeDict on arbitrary bytes without real numbers: total; integer operands re-encode to a fixed point.
func VerifH_C13_dict_bytes() {
	n := verifChoose("len", verifParam("maxlen", 6)+1)
	in := verifBytes("in", n)
	for i := range in {
		verifAssume(in[i] != 30) // real numbers go through strconv.ParseFloat: outside the solver fragment
	}
	// string-valued operators index the string table: keep them out (no table here)
	d, err := decodeDict(in, &cffStrings{})
	if err != nil {
		return
	}
	verifReach("accepted")
	for op := range d {
		verifAssume(!op.isString())
	}
	e2 := d.encode(&cffStrings{})
	d2, err := decodeDict(e2, &cffStrings{})
	verifAssert(err == nil && verifSame(d2, d), "decode/encode/decode fixed point")
}

// VerifH_C13_index: INDEX round trip, offsets monotone, minimal offSize, for small blobs.
func VerifH_C13_index() {
	n := verifChoose("count", verifParam("maxcount", 3)+1)
	var idx cffIndex
	total := 0
	for i := 0; i < n; i++ {
		b := verifBytes("blob", verifChoose("len", 3))
		if b == nil {
			b = []byte{}
		}
		idx = append(idx, b)
		total += len(b)
	}
	enc := idx.encode()
	if n == 0 {
		verifAssert(verifSame(enc, []byte{0, 0}), "empty INDEX is two zero bytes")
	} else {
		verifAssert(int(enc[0])<<8|int(enc[1]) == n, "count")
		verifAssert(enc[2] == 1, "offSize 1 suffices")
		verifAssert(len(enc) == 3+(n+1)+total, "emitted length")
		verifAssert(enc[3] == 1, "first offset is 1")
		for i := 0; i < n; i++ {
			verifAssert(int(enc[4+i])-int(enc[3+i]) == len(idx[i]), "offset differences are the blob lengths")
		}
	}
	// a trailing byte: readIndex compares offsets with the size of the whole input
	file := append(append([]byte{}, enc...), 0)
	got, err := readIndex(verifParser(file))
	verifAssert(err == nil, "own INDEX accepted")
	if err != nil {
		return
	}
	verifReach("read")
	verifAssert(len(got) == n, "blob count")
	for i := range got {
		verifAssert(verifSame([]byte(got[i]), []byte(idx[i])), "blob bytes")
	}
}

// VerifH_C13_offsize: the offset size of an INDEX is minimal at every threshold (blob lengths concrete, contents irrelevant).
func VerifH_C13_offsize() {
	sizes := []int{0, 1, 254, 255, 256, 65534, 65535, 65536, 70000}
	l := sizes[verifChoose("size", len(sizes))]
	blob := make([]byte, l)
	if l > 0 {
		blob[0] = verifU8("first")
		blob[l-1] = verifU8("last")
	}
	enc := cffIndex{blob}.encode()
	want := 1
	for l+1 >= 1<<(8*want) {
		want++
	}
	verifAssert(int(enc[2]) == want, "offSize is the smallest that can hold bodyLength+1")
	verifAssert(len(enc) == 3+2*want+l, "emitted length")
	got, err := readIndex(verifParser(append(enc, 0)))
	verifAssert(err == nil && len(got) == 1 && len(got[0]) == l, "round trip")
	if err == nil && l > 0 {
		verifAssert(got[0][0] == blob[0] && got[0][l-1] == blob[l-1], "contents")
	}
	verifReach("done")
}

// VerifH_C13_charset: charset encode/decode for every run structure of n names; the smallest format is chosen.
func VerifH_C13_charset() {
	n := 1 + verifChoose("n", verifParam("maxnames", 5))
	names := []int32{0}
	for i := 0; i < n; i++ {
		v := int32(verifU16("sid"))
		names = append(names, v)
	}
	enc, err := encodeCharset(names)
	verifAssert(err == nil, "encodable")
	if err != nil {
		return
	}
	// reference sizes of the three formats (CFF spec, tables 17-20)
	runs := 1
	for i := 2; i <= n; i++ {
		if names[i] != names[i-1]+1 {
			runs++
		}
	}
	l0, l1, l2 := 1+2*n, 1+3*runs, 1+4*runs
	best := l0
	if l1 < best {
		best = l1
	}
	if l2 < best {
		best = l2
	}
	verifAssert(len(enc) == best, "the smallest charset format is chosen")
	got, err := readCharset(verifParser(enc), n+1)
	verifAssert(err == nil, "own charset accepted")
	if err != nil {
		return
	}
	verifReach("read")
	verifAssert(verifSame(got, names), "charset round trip")
}

// VerifH_C13_charset_long: runs longer than 256 names (format 1 must split them, format 2 must not).
func VerifH_C13_charset_long() {
	l := []int{255, 256, 257, 300, 513}[verifChoose("runlen", 5)]
	first := int32(verifU16("first"))
	verifAssume(int(first)+l <= 0xFFFF && first > 0)
	names := []int32{0}
	for i := 0; i < l; i++ {
		names = append(names, first+int32(i))
	}
	extra := verifChoose("extra", 2)
	if extra == 1 {
		names = append(names, int32(verifU16("other")))
	}
	enc, err := encodeCharset(names)
	verifAssert(err == nil, "encodable")
	if err != nil {
		return
	}
	got, err := readCharset(verifParser(enc), len(names))
	verifAssert(err == nil && verifSame(got, names), "long run round trip")
	verifReach("done")
}

// VerifH_C13_fdselect: FDSelect encode/decode for every assignment of n glyphs to <=3 font dicts.
func VerifH_C13_fdselect() {
	n := []int{1, 2, 5, 8, 9, 10, 12}[verifChoose("n", verifParam("nchoices", 6))]
	nfd := 1 + verifChoose("nfd", 3)
	fds := make([]int, n)
	for i := range fds {
		fds[i] = int(verifU8("fd"))
		verifAssume(fds[i] < nfd)
	}
	fn := FDSelectFn(func(g glyph.ID) int { return fds[g] })
	enc := fn.encode(n)
	segs := 1
	for i := 1; i < n; i++ {
		if fds[i] != fds[i-1] {
			segs++
		}
	}
	l3 := 3 + 3*segs + 2
	if l3 < n+1 {
		verifAssert(enc[0] == 3 && len(enc) == l3, "format 3 when smaller")
		verifReach("format3")
	} else {
		verifAssert(enc[0] == 0 && len(enc) == n+1, "format 0 otherwise")
		verifReach("format0")
	}
	got, err := readFDSelect(verifParser(enc), n, nfd)
	verifAssert(err == nil, "own FDSelect accepted")
	if err != nil {
		return
	}
	g := glyph.ID(verifU16("query"))
	verifAssume(int(g) < n)
	verifAssert(got(g) == fds[g], "font dict assignment of every glyph survives")
}

// VerifH_C13_width: the width stored with a charstring plus the default/nominal widths kept in the
// Private DICT reproduce the glyph width, whatever default and nominal widths were selected.
func VerifH_C13_width() {
	n := []int{1, 2, 4}[verifChoose("glyphs", verifParam("maxglyphsel", 2))]
	f := &Font{FontInfo: &type1.FontInfo{}, Outlines: &Outlines{Private: []*type1.PrivateDict{{BlueScale: defaultBlueScale, BlueShift: defaultBlueShift, BlueFuzz: defaultBlueFuzz}}}}
	for i := 0; i < n; i++ {
		name := ".notdef"
		if i > 0 {
			name = string(rune('a' + i))
		}
		// widths: integers and fractions on a 1/16 grid
		w := verifDyadic("w", 4, -2000*16, 2000*16)
		f.Glyphs = append(f.Glyphs, &Glyph{Name: name, Width: w})
	}
	dw, nw := f.selectWidths()
	// the choice is a function of the widths alone: the same on every call, whatever the map iteration order
	// (otherwise the same font is written with different bytes from one call to the next)
	verifMapOrder(true)
	dw2, nw2 := f.selectWidths()
	verifMapOrder(false)
	verifAssert(dw2 == dw && nw2 == nw, "default and nominal width are chosen deterministically")
	pd := f.makePrivateDict(0, dw, nw)
	// what the reader will see
	rdw, rnw := pd.getFloat(opDefaultWidthX, 0), pd.getFloat(opNominalWidthX, 0)
	verifReach("selected")
	for _, g := range f.Glyphs {
		code, err := g.encodeCharString(dw, nw)
		verifAssert(err == nil, "glyph encodable")
		if err != nil {
			return
		}
		info := &decodeInfo{defaultWidth: rdw, nominalWidth: rnw}
		got, err := info.decodeCharString(code)
		verifAssert(err == nil, "own charstring accepted")
		if err != nil {
			return
		}
		d := got.Width - g.Width
		verifAssert(d <= 1.0/65536 && d >= -1.0/65536, "advance width recovered to 16.16 precision")
	}
}

// VerifH_C13_private: every field of a private dictionary is entered into the Private DICT under its own
// operator: what the reader extracts from the DICT (before serialisation, see the assumptions) equals the
// field, for symbolic field values including the defaults that are omitted.
func VerifH_C13_private() {
	p := &type1.PrivateDict{
		BlueScale: defaultBlueScale,
		BlueShift: int32(verifI32("blueshift")),
		BlueFuzz:  int32(verifI32("bluefuzz")),
		StdHW:     verifDyadic("stdhw", 4, 0, 10000*16),
		StdVW:     verifDyadic("stdvw", 4, 0, 10000*16),
		ForceBold: verifBool("forcebold"),
	}
	if verifBool("blues") {
		b0 := funit.Int16(verifI16("blue0"))
		b1 := funit.Int16(verifI16("blue1"))
		verifAssume(b0 <= b1 && b1-b0 >= 0)
		p.BlueValues = []funit.Int16{b0, b1}
	}
	f := &Font{FontInfo: &type1.FontInfo{}, Outlines: &Outlines{Private: []*type1.PrivateDict{p}}}
	dw, nw := verifDyadic("dw", 0, -2000, 2000), verifDyadic("nw", 0, -2000, 2000)
	pd := f.makePrivateDict(0, dw, nw)
	verifReach("made")
	verifAssert(pd.getFloat(opStdHW, 0) == p.StdHW, "StdHW stored under its operator")
	verifAssert(pd.getFloat(opStdVW, 0) == p.StdVW, "StdVW stored under its operator")
	verifAssert(pd.getInt(opBlueShift, defaultBlueShift) == p.BlueShift, "BlueShift")
	verifAssert(pd.getInt(opBlueFuzz, defaultBlueFuzz) == p.BlueFuzz, "BlueFuzz")
	verifAssert((pd.getInt(opForceBold, 0) != 0) == p.ForceBold, "ForceBold")
	verifAssert(verifSame(pd.getDeltaF16(opBlueValues), p.BlueValues), "BlueValues")
	verifAssert(pd.getFloat(opDefaultWidthX, 0) == dw && pd.getFloat(opNominalWidthX, 0) == nw, "default and nominal width")
}
