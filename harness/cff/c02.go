//go:build verif

package cff

import "seehuhn.de/go/sfnt/glyph"

// VerifH_C02_cffreaders: the CFF component readers on arbitrary bytes: total, with bounded allocation.
func VerifH_C02_cffreaders() {
	verifAllocLimit(1 << 20)
	switch verifChoose("reader", 4) {
	case 0:
		n := 3 + verifChoose("len", verifParam("maxlen", 8))
		in := verifBytes("in", n)
		verifAssume(in[0] == 0 && in[1] <= 2)
		idx, err := readIndex(verifParser(in))
		if err == nil {
			verifReach("index")
			idx.encode()
		}
	case 1:
		in := verifBytes("in", 1+verifChoose("len", verifParam("maxlen", 5)))
		ng := 1 + verifChoose("nglyphs", 2)
		for i := 3; i < len(in); i++ {
			verifAssume(in[i] <= 4) // run lengths (nLeft) small: the reader materialises every run entry
		}
		cs, err := readCharset(verifParser(in), ng)
		if err == nil {
			verifReach("charset")
			verifAssert(len(cs) == ng && cs[0] == 0, "charset has one entry per glyph, .notdef first")
		}
	case 2:
		in := verifBytes("in", 1+verifChoose("len", 9))
		ng := verifChoose("nglyphs", 4)
		fn, err := readFDSelect(verifParser(in), ng, 2)
		if err == nil && ng > 0 {
			verifReach("fdselect")
			g := verifU16("g")
			verifAssume(int(g) < ng)
			fd := fn(glyph.ID(g))
			verifAssert(fd >= 0 && fd < 2, "font dict index in range")
		}
	default:
		// Private DICT located by (size, offset) taken from the font: arbitrary values over a small file
		file := verifBytes("file", 4+verifParam("privfile", 6))
		d := cffDict{opPrivate: []interface{}{verifI32("size"), verifI32("offs")}}
		for i := range file {
			verifAssume(file[i] != 30 && file[i] != 19) // no reals, no Subrs offset
		}
		info, err := d.readPrivate(verifParser(file), &cffStrings{})
		if err == nil {
			verifReach("private")
			_ = info
		}
	}
}
