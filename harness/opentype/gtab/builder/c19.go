//go:build verif

package builder

import (
	"strings"

	"seehuhn.de/go/postscript/funit"

	"seehuhn.de/go/sfnt"
	"seehuhn.de/go/sfnt/cmap"
	"seehuhn.de/go/sfnt/glyf"
	"seehuhn.de/go/sfnt/glyph"
	"seehuhn.de/go/sfnt/maxp"
	"seehuhn.de/go/sfnt/opentype/anchor"
	"seehuhn.de/go/sfnt/opentype/classdef"
	"seehuhn.de/go/sfnt/opentype/coverage"
	"seehuhn.de/go/sfnt/opentype/gtab"
	"seehuhn.de/go/sfnt/opentype/markarray"
)

// verifFont19: a TrueType font with the glyphs .notdef A B C D M N X (ids 0..7), named and mapped unless
// the caller asks otherwise.
func verifFont19(named, mapped bool) *sfnt.Font {
	names := []string{".notdef", "A", "B", "C", "D", "M", "N", "X"}
	o := &glyf.Outlines{Maxp: &maxp.TTFInfo{}}
	m := cmap.Format12{}
	for i, n := range names {
		o.Glyphs = append(o.Glyphs, nil)
		o.Widths = append(o.Widths, funit.Int16(100*i))
		if named {
			o.Names = append(o.Names, n)
		}
		if i > 0 && mapped {
			m[uint32(n[0])] = glyph.ID(i)
		}
	}
	f := &sfnt.Font{FamilyName: "Test", UnitsPerEm: 1000, Outlines: o}
	f.CMapTable = cmap.Table{cmap.Key{PlatformID: 3, EncodingID: 10}: m.Encode(0)}
	return f
}

// VerifH_C19_smoke: concrete description, goroutines and channels run inside the engine.
func VerifH_C19_smoke() {
	f := verifFont19(true, true)
	ll, err := Parse(f, "GSUB1: A->B, M->N\nGSUB2: A -> \"AB\"\n")
	verifAssert(err == nil, "valid description parses")
	verifAssert(len(ll) == 2, "two lookups")
	verifObserve("lookups", len(ll))
	verifAssert(verifLeaked() == 0, "no goroutine left running")
	verifReach("done")
}

// VerifH_C19_dbgleak: expected leak of the string decoder goroutine.
func VerifH_C19_dbgleak() {
	f := verifFont19(true, true)
	_, err := Parse(f, "GSUB1: \"ZA\" -> B\n")
	verifAssert(err != nil, "unmapped rune is an error")
	verifAssert(verifLeaked() == 0, "no goroutine left running")
	verifReach("done")
}

// verifTemplates: valid descriptions, one per lookup type / subtable alternative the language has syntax for.
var verifTemplates = []string{
	"GSUB1: A->B, M->N\n",
	"GSUB1: -marks A-C -> B-D\n",
	"GSUB2: A -> \"AB\", B -> C D\n",
	"GSUB3: -ligs A -> [B C]\n",
	"GSUB4: -base A B -> C, A -> D\n",
	"GSUB5: A B -> 1@0 2@1 ||\nclass :x: = [A B]\n/A/ :x: :: -> 1@1 ||\n[A B] [C] -> 3@0\n",
	"GSUB6: A | B C | D -> 1@0 ||\ninputclass :i: = [B]\nbacktrackclass :b: = [A]\nlookaheadclass :l: = [D]\n/B/ :b: | :i: | :l: -> 1@0 ||\n[A] | [B] [C] | [D] -> 1@1\n",
	"GPOS1: [A-C] -> y+10 || D -> dx-1, M -> x+1\n",
	"GPOS2: A B -> dx-100, \"AC\" -> y+100 dx-50 & y-100\n",
	"GPOS2: /A B/ first B, A; second C, D; _, _, _, _, dx-50 & y-10, dx+10, _, dx-10, dx-30\n",
	"GPOS3: A: 1,1 to 2,2; B: 1,0 to 0,1 || M: 1,1 to 2,2\n",
	"GPOS4: mark M: 0@100,100; mark N: 1@200,100; base A: @400,1000 @500,1000; base B: @500,1000 @600,900\n",
}

// VerifH_C19_templates: every template parses, leaves no goroutine behind and survives explain -> parse.
func VerifH_C19_templates() {
	k := verifChoose("template", len(verifTemplates))
	f := verifFont19(true, true)
	ll, err := Parse(f, verifTemplates[k])
	verifAssert(err == nil, "template parses")
	verifAssert(verifLeaked() == 0, "no goroutine left running")
	if err != nil {
		return
	}
	var text string
	if verifTemplates[k][1] == 'S' {
		f.Gsub = &gtab.Info{LookupList: ll}
		text = ExplainGsub(f)
	} else {
		f.Gpos = &gtab.Info{LookupList: ll}
		text = strings.Join(ExplainGpos(f), "\n")
	}
	ll2, err := Parse(f, text)
	verifAssert(err == nil, "explained lookups parse")
	verifAssert(verifSame(ll2, ll), "parse(explain(L)) == L")
	verifAssert(verifLeaked() == 0, "no goroutine left running")
	verifReach("done")
}

// verifParseChecked runs Parse and checks the totality part of the property: the call returns (no deadlock:
// the engine reports "all goroutines are asleep"), nothing panics in any goroutine, an error carries a line
// number inside the text, and no goroutine is left running.
func verifParseChecked(f *sfnt.Font, text string, lines int) (gtab.LookupList, error) {
	ll, err := Parse(f, text)
	if err != nil {
		pe, ok := err.(*parseError)
		verifAssert(ok, "errors are parse errors")
		if ok {
			verifAssert(pe.next.line >= 1 && pe.next.line <= lines, "error carries a line number of the text")
		}
	}
	verifAssert(verifLeaked() == 0, "no goroutine left running")
	return ll, err
}

// VerifH_C19_text: every text that differs from a valid description in a window of `window` arbitrary bytes.
func VerifH_C19_text() {
	width := verifParam("window", 1)
	k := verifChoose("template", len(verifTemplates))
	tpl := verifTemplates[k]
	pos := verifChoose("pos", len(tpl)-width+1)
	b := []byte(tpl)
	lines := 1
	for i := 0; i < width; i++ {
		b[pos+i] = verifU8("c")
		if verifParam("ascii", 1) != 0 {
			verifAssume(b[pos+i] < 0x80)
		}
	}
	text := string(b)
	for i := 0; i < len(text); i++ {
		if text[i] == '\n' {
			lines++
		}
	}
	f := verifFont19(verifParam("named", 1) != 0, verifParam("mapped", 1) != 0)
	_, err := verifParseChecked(f, text, lines)
	if err == nil {
		verifReach("accepted")
	} else {
		verifReach("rejected")
	}
}

func verifGID(tag string) glyph.ID {
	g := glyph.ID(verifU16(tag))
	verifAssume(g >= 1 && int(g) <= verifParam("maxgid", 7))
	return g
}

func verifValueRecord(tag string, lite bool) *gtab.GposValueRecord {
	if verifBool(tag + "nil") {
		return nil
	}
	r := &gtab.GposValueRecord{XPlacement: funit.Int16(verifI16(tag + "x"))}
	if lite && verifParam("vrfields", 3) < 3 {
		// quick tier, second record of a subtable: one single-digit field
		verifAssume(r.XPlacement >= -9 && r.XPlacement <= 9 && r.XPlacement != 0)
		return r
	}
	if verifParam("vrfields", 3) >= 3 {
		r.YPlacement, r.XAdvance = funit.Int16(verifI16(tag+"y")), funit.Int16(verifI16(tag+"dx"))
	} else {
		// quick tier: one field over all of int16, the other two present or absent
		if verifBool(tag + "y") {
			r.YPlacement = -32768
		}
		if verifBool(tag + "dx") {
			r.XAdvance = 7
		}
	}
	// normal form of the language: a record without any adjustment is written "_" and read as nil
	verifAssume(r.XPlacement != 0 || r.YPlacement != 0 || r.XAdvance != 0)
	return r
}

// VerifH_C19_roundtrip: Parse(Explain(L)) == L for lookup lists of each kind with symbolic flags (all subsets
// of ignore marks / ligatures / base glyphs), symbolic glyph ids, value records and nested actions.
func VerifH_C19_roundtrip() {
	kind := verifChoose("kind", 11)
	nf := verifParam("fonts", 4)
	if nf == 2 && (kind == 4 || (kind >= 7 && kind != 10)) {
		nf = 1 // quick tier: the kinds with many symbolic fields use two of the four fonts
	}
	fontKind := verifChoose("font", nf) * (4 / nf)
	if nf == 1 {
		fontKind = 3 * verifChoose("font", 2)
	}
	f := verifFont19(fontKind&1 == 0, fontKind&2 == 0)
	flags := gtab.LookupFlags(verifU16("flags"))
	verifAssume(flags&^(gtab.IgnoreMarks|gtab.IgnoreLigatures|gtab.IgnoreBaseGlyphs) == 0)
	var st gtab.Subtable
	typ := uint16(0)
	gpos := false
	switch kind {
	case 0: // single substitution, constant delta
		g1, g2 := verifGID("g"), verifGID("g")
		st, typ = &gtab.Gsub1_1{Cov: coverage.Set{g1: true}, Delta: g2 - g1}, 1
	case 1: // single substitution, list
		g1, g2 := verifGID("g"), verifGID("g")
		s1, s2 := verifGID("s"), verifGID("s")
		verifAssume(g1 < g2 && s1-g1 != s2-g2)
		st, typ = &gtab.Gsub1_2{Cov: coverage.Table{g1: 0, g2: 1}, SubstituteGlyphIDs: []glyph.ID{s1, s2}}, 1
	case 2: // multiple substitution
		st, typ = &gtab.Gsub2_1{Cov: coverage.Table{verifGID("g"): 0}, Repl: [][]glyph.ID{{verifGID("r"), verifGID("r")}}}, 2
	case 3: // alternates
		a1, a2 := verifGID("a"), verifGID("a")
		verifAssume(a1 < a2)
		st, typ = &gtab.Gsub3_1{Cov: coverage.Table{verifGID("g"): 0}, Alternates: [][]glyph.ID{{a1, a2}}}, 3
	case 4: // ligatures: two candidates for the same first glyph, in priority order
		g := verifGID("g")
		st, typ = &gtab.Gsub4_1{Cov: coverage.Table{g: 0}, Repl: [][]gtab.Ligature{{{In: []glyph.ID{verifGID("i"), verifGID("i")}, Out: verifGID("o")}, {In: []glyph.ID{verifGID("i")}, Out: verifGID("o")}}}}, 4
	case 5: // contextual, glyph based, nested actions
		g := verifGID("g")
		st, typ = &gtab.SeqContext1{Cov: coverage.Table{g: 0}, Rules: [][]*gtab.SeqRule{{{Input: []glyph.ID{verifGID("i")},
			Actions: []gtab.SeqLookup{{SequenceIndex: verifU16("seq"), LookupListIndex: gtab.LookupIndex(verifU16("lookup"))}}}}}}, 5
	case 6: // chained contextual, coverage based
		st, typ = &gtab.ChainedSeqContext3{Backtrack: []coverage.Set{{verifGID("b"): true}}, Input: []coverage.Set{{verifGID("i"): true}}, Lookahead: []coverage.Set{{verifGID("l"): true}},
			Actions: []gtab.SeqLookup{{SequenceIndex: verifU16("seq"), LookupListIndex: gtab.LookupIndex(verifU16("lookup"))}}}, 6
	case 7: // single adjustment, one record for a set
		g1, g2 := verifGID("g"), verifGID("g")
		verifAssume(g1 < g2)
		r := verifValueRecord("v", false)
		st, typ, gpos = &gtab.Gpos1_1{Cov: coverage.Table{g1: 0, g2: 1}, Adjust: r}, 1, true
	case 8: // single adjustment, per glyph
		g1, g2 := verifGID("g"), verifGID("g")
		verifAssume(g1 < g2)
		st, typ, gpos = &gtab.Gpos1_2{Cov: coverage.Table{g1: 0, g2: 1}, Adjust: []*gtab.GposValueRecord{verifValueRecord("v", false), verifValueRecord("w", true)}}, 1, true
	case 10: // contextual, class based: rules for two different first classes
		g1, g2 := verifGID("g"), verifGID("g")
		verifAssume(g1 < g2)
		c1, c2 := verifU16("cls"), verifU16("cls")
		verifAssume(c1 <= 2 && c2 <= 2)
		sym := []gtab.SeqLookup{{SequenceIndex: verifU16("seq"), LookupListIndex: gtab.LookupIndex(verifU16("lookup"))}}
		fix := []gtab.SeqLookup{{SequenceIndex: 1, LookupListIndex: 2}, {SequenceIndex: 0, LookupListIndex: 7}}
		st, typ = &gtab.SeqContext2{Cov: coverage.Table{g1: 0, g2: 1}, Input: classdef.Table{g1: 1, g2: 2},
			Rules: [][]*gtab.ClassSeqRule{nil, {{Input: []uint16{c1}, Actions: sym}}, {{Input: []uint16{c2}, Actions: fix}, {Input: nil, Actions: fix[:1]}}}}, 5
	default: // pair adjustment
		pa := &gtab.PairAdjust{First: verifValueRecord("v", false)}
		if verifBool("second") {
			pa.Second = verifValueRecord("w", true)
			verifAssume(pa.Second != nil)
		}
		st, typ, gpos = gtab.Gpos2_1{glyph.Pair{Left: verifGID("l"), Right: verifGID("r")}: pa}, 2, true
	}
	ll := gtab.LookupList{{Meta: &gtab.LookupMetaInfo{LookupType: typ, LookupFlags: flags}, Subtables: []gtab.Subtable{st}}}
	var text string
	if gpos {
		f.Gpos = &gtab.Info{LookupList: ll}
		text = strings.Join(ExplainGpos(f), "\n")
	} else {
		f.Gsub = &gtab.Info{LookupList: ll}
		text = ExplainGsub(f)
	}
	ll2, err := Parse(f, text)
	verifAssert(err == nil, "explained lookups parse")
	if err != nil {
		return
	}
	verifAssert(verifSame(ll2, ll), "parse(explain(L)) == L")
	verifAssert(verifLeaked() == 0, "no goroutine left running")
	verifReach("done")
}

// VerifH_C19_sched: every interleaving of the lexer and parser goroutines (at channel-operation granularity,
// with at most `preemptions` preemptive switches per run) on short descriptions with one arbitrary byte: the outcome (lookups or error, error line) is the same as
// under the deterministic schedule, and nothing deadlocks, panics or leaks under any schedule.
func VerifH_C19_sched() {
	short := []string{"GSUB1: A->B\n", "GSUB2: A -> \"AB\"\n", "GPOS1:\nA -> x+1\n"}
	k := verifChoose("text", len(short))
	b := []byte(short[k])
	pos := verifChoose("pos", len(b))
	b[pos] = verifU8("c")
	verifAssume(b[pos] < 0x80)
	text := string(b)
	lines := 1
	for i := 0; i < len(text); i++ {
		if text[i] == '\n' {
			lines++
		}
	}
	f := verifFont19(true, true)
	ll0, err0 := verifParseChecked(f, text, lines)
	verifSchedules(true)
	verifPreemptions(verifParam("preemptions", 2))
	ll1, err1 := verifParseChecked(f, text, lines)
	verifSchedules(false)
	verifAssert((err0 == nil) == (err1 == nil), "acceptance does not depend on the schedule")
	if err0 != nil && err1 != nil {
		verifAssert(err0.(*parseError).next.line == err1.(*parseError).next.line, "error line does not depend on the schedule")
	} else {
		verifAssert(verifSame(ll0, ll1), "result does not depend on the schedule")
	}
	verifReach("done")
}

// VerifH_C19_nocmap: fonts without a usable character map: Parse returns an error (or lookups, when the text
// needs no character map) and leaves no goroutine behind, for every text one byte away from a template.
func VerifH_C19_nocmap() {
	k := verifChoose("template", len(verifTemplates))
	b := []byte(verifTemplates[k])
	pos := verifChoose("pos", len(b))
	b[pos] = verifU8("c")
	verifAssume(b[pos] < 0x80)
	f := verifFont19(true, true)
	switch verifChoose("cmap", 2) {
	case 0:
		f.CMapTable = nil
	default:
		// a subtable format the library does not implement (format 2), as cmap.Decode would deliver it
		f.CMapTable = cmap.Table{cmap.Key{PlatformID: 3, EncodingID: 10}: []byte{0, 2, 0, 6, 0, 0}}
	}
	Parse(f, string(b))
	verifAssert(verifLeaked() == 0, "no goroutine left running")
	verifReach("done")
}

// VerifH_C16_explain: ExplainGsub / ExplainGpos are read-only operations: with the font frozen (every object
// reachable from it and all package-level variables), explaining lookups of each kind stores nothing into
// frozen memory.  The alternate sets, ligature lists and coverage tables are deliberately not in sorted order.
func VerifH_C16_explain() {
	f := verifFont19(true, true)
	f.Gsub = &gtab.Info{LookupList: gtab.LookupList{
		{Meta: &gtab.LookupMetaInfo{LookupType: 3}, Subtables: []gtab.Subtable{&gtab.Gsub3_1{Cov: coverage.Table{1: 0, 2: 1}, Alternates: [][]glyph.ID{{4, 3, 2}, {7, 5}}}}},
		{Meta: &gtab.LookupMetaInfo{LookupType: 4}, Subtables: []gtab.Subtable{&gtab.Gsub4_1{Cov: coverage.Table{2: 0, 1: 1}, Repl: [][]gtab.Ligature{{{In: []glyph.ID{3, 1}, Out: 5}, {In: []glyph.ID{1}, Out: 4}}, {{In: []glyph.ID{2}, Out: 6}}}}}},
		{Meta: &gtab.LookupMetaInfo{LookupType: 2}, Subtables: []gtab.Subtable{&gtab.Gsub2_1{Cov: coverage.Table{3: 0}, Repl: [][]glyph.ID{{7, 1, 4}}}}},
		{Meta: &gtab.LookupMetaInfo{LookupType: 6}, Subtables: []gtab.Subtable{&gtab.ChainedSeqContext3{Backtrack: []coverage.Set{{3: true, 1: true}}, Input: []coverage.Set{{5: true, 2: true}}, Lookahead: []coverage.Set{{7: true, 4: true}},
			Actions: []gtab.SeqLookup{{SequenceIndex: 0, LookupListIndex: 0}}}}},
	}}
	f.Gpos = &gtab.Info{LookupList: gtab.LookupList{
		{Meta: &gtab.LookupMetaInfo{LookupType: 1}, Subtables: []gtab.Subtable{&gtab.Gpos1_2{Cov: coverage.Table{1: 0, 2: 1}, Adjust: []*gtab.GposValueRecord{{XAdvance: 5}, {YPlacement: -3}}}}},
		{Meta: &gtab.LookupMetaInfo{LookupType: 2}, Subtables: []gtab.Subtable{gtab.Gpos2_1{glyph.Pair{Left: 2, Right: 1}: &gtab.PairAdjust{First: &gtab.GposValueRecord{XAdvance: -40}}, glyph.Pair{Left: 1, Right: 2}: &gtab.PairAdjust{First: &gtab.GposValueRecord{XAdvance: -10}, Second: &gtab.GposValueRecord{XPlacement: 3}}}}},
	}}
	verifShared(f)
	verifFreeze()
	verifExplainBoth(f, verifChoose("which", 2))
	verifThaw()
	verifReach("done")
}

// verifExplainBoth runs in its own frame: its locals are allocated after the freeze.
func verifExplainBoth(f *sfnt.Font, which int) {
	if which == 0 {
		text := ExplainGsub(f)
		verifAssert(len(text) > 0, "GSUB explained")
	} else {
		text := ExplainGpos(f)
		verifAssert(len(text) == 2, "GPOS explained")
	}
}

// VerifH_C19_multi: lookups with several subtables (the language separates them with "||"): every ordered pair
// of subtable alternatives of GPOS 1, GPOS 2, GPOS 3, GPOS 4, GSUB 5 and GSUB 6, with symbolic lookup flags and
// a few symbolic values, survives explain -> parse.
func VerifH_C19_multi() {
	kind := verifChoose("kind", 8)
	flags := gtab.LookupFlags(verifU16("flags"))
	verifAssume(flags&^(gtab.IgnoreMarks|gtab.IgnoreLigatures|gtab.IgnoreBaseGlyphs) == 0)
	f := verifFont19(true, true)
	vr := func(tag string) *gtab.GposValueRecord {
		v := funit.Int16(verifI16(tag))
		verifAssume(v != 0)
		if tag != "a" {
			verifAssume(v >= -9 && v <= 9) // one value over all of int16, the others single digits
		}
		return &gtab.GposValueRecord{XAdvance: v}
	}
	an := func(x, y int16) anchor.Table { return anchor.Table{X: funit.Int16(x), Y: funit.Int16(y)} }
	act := []gtab.SeqLookup{{SequenceIndex: verifU16("seq"), LookupListIndex: gtab.LookupIndex(verifU16("lookup"))}}
	var alts []gtab.Subtable
	typ := uint16(0)
	gpos := true
	switch kind {
	case 0:
		typ = 1
		alts = []gtab.Subtable{&gtab.Gpos1_1{Cov: coverage.Table{1: 0, 2: 1}, Adjust: vr("a")}, &gtab.Gpos1_2{Cov: coverage.Table{3: 0, 4: 1}, Adjust: []*gtab.GposValueRecord{vr("b"), vr("c")}}}
	case 1:
		typ = 2
		alts = []gtab.Subtable{gtab.Gpos2_1{glyph.Pair{Left: 1, Right: 2}: &gtab.PairAdjust{First: vr("a")}},
			&gtab.Gpos2_2{Cov: coverage.Set{1: true, 2: true}, Class1: classdef.Table{2: 1}, Class2: classdef.Table{3: 1},
				Adjust: [][]*gtab.PairAdjust{{{}, {First: vr("b")}}, {{First: vr("c")}, {}}}}}
	case 2:
		typ = 3
		alts = []gtab.Subtable{&gtab.Gpos3_1{Cov: coverage.Table{1: 0}, Records: []gtab.EntryExitRecord{{Entry: an(1, 2), Exit: an(3, 4)}}},
			&gtab.Gpos3_1{Cov: coverage.Table{2: 0, 3: 1}, Records: []gtab.EntryExitRecord{{Entry: an(5, 6), Exit: an(7, 8)}, {Entry: an(9, 1), Exit: an(2, 3)}}}}
	case 3:
		typ = 4
		mk := func(m, b glyph.ID) gtab.Subtable {
			return &gtab.Gpos4_1{MarkCov: coverage.Table{m: 0}, BaseCov: coverage.Table{b: 0},
				MarkArray: []markarray.Record{{Class: 0, Table: an(1, 1)}}, BaseArray: [][]anchor.Table{{an(10, 20)}}}
		}
		alts = []gtab.Subtable{mk(5, 1), mk(6, 2)}
	case 4:
		typ, gpos = 5, false
		alts = []gtab.Subtable{&gtab.SeqContext1{Cov: coverage.Table{1: 0}, Rules: [][]*gtab.SeqRule{{{Input: []glyph.ID{2}, Actions: act}}}},
			&gtab.SeqContext3{Input: []coverage.Set{{1: true, 2: true}, {3: true}}, Actions: act}}
	case 6: // two class based chained context subtables, each with backtrack, input and lookahead classes
		typ, gpos = 6, false
		cc := func(b, i, l glyph.ID) gtab.Subtable {
			return &gtab.ChainedSeqContext2{Cov: coverage.Table{i: 0}, Backtrack: classdef.Table{b: 1}, Input: classdef.Table{i: 1}, Lookahead: classdef.Table{l: 1},
				Rules: [][]*gtab.ChainedClassSeqRule{nil, {{Backtrack: []uint16{1}, Lookahead: []uint16{1}, Actions: act}}}}
		}
		alts = []gtab.Subtable{cc(1, 2, 3), cc(4, 5, 6)}
	case 7: // two class based context subtables
		typ, gpos = 5, false
		sc := func(a, b glyph.ID) gtab.Subtable {
			return &gtab.SeqContext2{Cov: coverage.Table{a: 0}, Input: classdef.Table{a: 1, b: 2},
				Rules: [][]*gtab.ClassSeqRule{nil, {{Input: []uint16{2}, Actions: act}}, nil}} // one rule set per class (normal form)
		}
		alts = []gtab.Subtable{sc(1, 2), sc(3, 4)}
	default:
		typ, gpos = 6, false
		alts = []gtab.Subtable{&gtab.ChainedSeqContext1{Cov: coverage.Table{1: 0}, Rules: [][]*gtab.ChainedSeqRule{{{Backtrack: []glyph.ID{3}, Input: []glyph.ID{2}, Lookahead: []glyph.ID{4}, Actions: act}}}},
			&gtab.ChainedSeqContext3{Backtrack: []coverage.Set{{3: true}}, Input: []coverage.Set{{1: true, 2: true}}, Lookahead: []coverage.Set{{4: true}}, Actions: act}}
	}
	var subs []gtab.Subtable
	switch verifChoose("order", 3) {
	case 0:
		subs = []gtab.Subtable{alts[0], alts[1]}
	case 1:
		subs = []gtab.Subtable{alts[1], alts[0]}
	default:
		subs = []gtab.Subtable{alts[1], alts[0], alts[1]}
	}
	ll := gtab.LookupList{{Meta: &gtab.LookupMetaInfo{LookupType: typ, LookupFlags: flags}, Subtables: subs}}
	var text string
	if gpos {
		f.Gpos = &gtab.Info{LookupList: ll}
		text = strings.Join(ExplainGpos(f), "\n")
	} else {
		f.Gsub = &gtab.Info{LookupList: ll}
		text = ExplainGsub(f)
	}
	ll2, err := Parse(f, text)
	verifAssert(err == nil, "explained lookups with several subtables parse")
	if err != nil {
		return
	}
	verifAssert(verifSame(ll2, ll), "parse(explain(L)) == L for lookups with several subtables")
	verifAssert(verifLeaked() == 0, "no goroutine left running")
	verifReach("done")
}
