//go:build verif

package gtab

import (
	"seehuhn.de/go/postscript/funit"

	"seehuhn.de/go/sfnt/glyph"
	"seehuhn.de/go/sfnt/opentype/anchor"
	"seehuhn.de/go/sfnt/opentype/classdef"
	"seehuhn.de/go/sfnt/opentype/coverage"
	"seehuhn.de/go/sfnt/opentype/gdef"
	"seehuhn.de/go/sfnt/opentype/markarray"
)

// VerifH_C07_reader: whatever the subtable readers accept from arbitrary bytes can be applied at every
// position of an arbitrary short sequence without a panic, and terminates.
func VerifH_C07_reader() {
	types := []uint16{1, 2, 3, 4, 5, 6}
	lt := types[verifChoose("type", len(types))]
	n := 6 + 2*verifChoose("words", verifParam("maxwords", 6)+1)
	in := verifBytes("in", n)
	// counts and offsets are small numbers: spend the bytes on structure, not on list lengths
	for i := 0; i+1 < n; i += 2 {
		verifAssume(in[i] == 0 && int(in[i+1]) <= n)
	}
	meta := &LookupMetaInfo{LookupType: lt}
	st, err := readGsubSubtable(verifParser(in), 0, meta)
	if err != nil {
		return
	}
	verifReach("accepted")
	ll := LookupList{{Meta: meta, Subtables: []Subtable{st}}}
	seq := make([]glyph.Info, 1+verifChoose("len", 2))
	for i := range seq {
		g := glyph.ID(verifU16("gid"))
		verifAssume(int(g) <= n+1)
		seq[i] = glyph.Info{GID: g, Text: []rune{rune('a' + i)}}
	}
	out := NewContext(ll, nil, []LookupIndex{0}).Apply(seq)
	verifAssert(len(out) <= 3*(n+2), "output length bounded by what the substitutions can produce")
	// the accepted subtable can be re-encoded
	enc := st.encode()
	verifAssert(len(enc) == st.encodeLen(), "encodeLen consistent for accepted subtables")
}

// VerifH_C07_flags: lookup flags referring to GDEF data that is missing or out of range (mark filtering set
// index beyond the sets the GDEF table defines, no mark attachment classes) are applied without a panic.
func VerifH_C07_flags() {
	f := LookupFlags(verifU16("flags"))
	meta := &LookupMetaInfo{LookupType: 1, LookupFlags: f, MarkFilteringSet: verifU16("markset")}
	verifAssume(meta.MarkFilteringSet <= 3)
	gd := &gdef.Table{GlyphClass: classdef.Table{1: 1, 2: 3, 3: 2}}
	switch verifChoose("gdef", 3) {
	case 1:
		gd.MarkGlyphSets = []coverage.Set{{2: true}}
	case 2:
		gd.MarkGlyphSets = []coverage.Set{{2: true}, {}}
		gd.MarkAttachClass = classdef.Table{2: 1}
	}
	ll := LookupList{{Meta: meta, Subtables: []Subtable{&Gsub1_1{Cov: coverage.Set{1: true, 2: true, 3: true}, Delta: 5}}}}
	seq := verifSeq(2, 3)
	want := refShape(ll, gd, []LookupIndex{0}, seq)
	got := NewContext(ll, gd, []LookupIndex{0}).Apply(refCopy(seq))
	verifReach("applied")
	verifAssert(sameSeq(got, want), "flags with missing GDEF data behave as the reference (an undefined set is empty)")
}

// manyActions builds a sequence context rule with k nested actions (more than the engine's budget of 64
// when k > 63); every action substitutes the first glyph by itself+0, so the result is unaffected.
func manyActions(k int) LookupList {
	var acts []SeqLookup
	for i := 0; i < k; i++ {
		acts = append(acts, SeqLookup{SequenceIndex: 0, LookupListIndex: 1})
	}
	ctxSub := &SeqContext1{Cov: coverage.Table{1: 0}, Rules: [][]*SeqRule{{{Input: []glyph.ID{2}, Actions: acts}}}}
	return LookupList{
		{Meta: &LookupMetaInfo{LookupType: 5}, Subtables: []Subtable{ctxSub}},
		{Meta: &LookupMetaInfo{LookupType: 1}, Subtables: []Subtable{&Gsub1_1{Cov: coverage.Set{1: true}, Delta: 0}}},
		{Meta: &LookupMetaInfo{LookupType: 1}, Subtables: []Subtable{&Gsub1_1{Cov: coverage.Set{3: true}, Delta: 7}}},
	}
}

// VerifH_C07_history: the result of Apply depends only on the tables and the input sequence, not on earlier
// calls made with the same Context (including a call that matched a rule with more nested actions than the
// engine's budget).
func VerifH_C07_history() {
	k := []int{1, 63, 64, 70}[verifChoose("actions", 4)]
	ll := manyActions(k)
	order := []LookupIndex{0, 2}
	ctx := NewContext(ll, nil, order)
	first := verifSeq(2+verifChoose("len1", 2), 3)
	ctx.Apply(refCopy(first))
	second := verifSeq(1+verifChoose("len2", 3), 3)
	got := ctx.Apply(refCopy(second))
	fresh := NewContext(ll, nil, order).Apply(refCopy(second))
	verifReach("applied")
	verifAssert(sameSeq(got, fresh), "a reused Context gives the same result as a fresh one")
	verifAssert(sameSeq(fresh, refShape(ll, nil, order, second)), "and both equal the reference")
}

// VerifH_C07_term: self-referential and nested contextual rules terminate.
func VerifH_C07_term() {
	// lookup 0 is a context rule whose action calls lookup 0 again (self reference) and lookup 1
	self := &SeqContext1{Cov: coverage.Table{1: 0}, Rules: [][]*SeqRule{{{Input: []glyph.ID{1}, Actions: []SeqLookup{{SequenceIndex: verifU16("s0"), LookupListIndex: 0}, {SequenceIndex: 1, LookupListIndex: LookupIndex(verifU16("l1"))}}}}}}
	verifAssume(self.Rules[0][0].Actions[0].SequenceIndex <= 2 && self.Rules[0][0].Actions[1].LookupListIndex <= 2)
	ll := LookupList{
		{Meta: &LookupMetaInfo{LookupType: 5}, Subtables: []Subtable{self}},
		{Meta: &LookupMetaInfo{LookupType: 2}, Subtables: []Subtable{&Gsub2_1{Cov: coverage.Table{1: 0}, Repl: [][]glyph.ID{{1, 1}}}}},
	}
	seq := verifSeq(2+verifChoose("len", 2), 2)
	verifUnwind(3000)
	out := NewContext(ll, nil, []LookupIndex{0}).Apply(refCopy(seq))
	verifReach("terminated")
	verifAssert(len(out) <= len(seq)+64*2, "output growth bounded by the action budget")
}

// verifCtxSubtable builds a contextual subtable of the given format (0..5 = sequence context 1/2/3, chained
// context 1/2/3) that matches the glyph sequence `in` (glyph ids 1..3; class of glyph g is g) with the given
// nested actions and, for the chained formats, no backtrack / lookahead.
func verifCtxSubtable(format int, in []glyph.ID, actions []SeqLookup) Subtable {
	cls := classdef.Table{1: 1, 2: 2, 3: 3}
	rest := in[1:]
	var restCls []uint16
	var sets []coverage.Set
	for _, g := range rest {
		restCls = append(restCls, uint16(g))
	}
	for _, g := range in {
		sets = append(sets, coverage.Set{g: true})
	}
	switch format {
	case 0:
		return &SeqContext1{Cov: coverage.Table{in[0]: 0}, Rules: [][]*SeqRule{{{Input: rest, Actions: actions}}}}
	case 1:
		rules := make([][]*ClassSeqRule, 4)
		rules[in[0]] = []*ClassSeqRule{{Input: restCls, Actions: actions}}
		return &SeqContext2{Cov: coverage.Table{in[0]: 0}, Input: cls, Rules: rules}
	case 2:
		return &SeqContext3{Input: sets, Actions: actions}
	case 3:
		return &ChainedSeqContext1{Cov: coverage.Table{in[0]: 0}, Rules: [][]*ChainedSeqRule{{{Input: rest, Actions: actions}}}}
	case 4:
		rules := make([][]*ChainedClassSeqRule, 4)
		rules[in[0]] = []*ChainedClassSeqRule{{Input: restCls, Actions: actions}}
		return &ChainedSeqContext2{Cov: coverage.Table{in[0]: 0}, Backtrack: classdef.Table{}, Input: cls, Lookahead: classdef.Table{}, Rules: rules}
	default:
		return &ChainedSeqContext3{Input: sets, Actions: actions}
	}
}

// VerifH_C07_scratch: nested contextual lookups share the Context's scratch space with their parent rule.  An
// outer rule of every contextual format over two or three glyphs runs an inner contextual lookup (every format) at a
// later position and then a single substitution at an earlier position; the glyph sequence contains the
// pattern twice, so that the second match (and a second Apply on the same Context) reuses the scratch space.
func VerifH_C07_scratch() {
	outerFmt := verifChoose("outer", 6)
	innerFmt := verifChoose("inner", 6)
	n := 2 + verifChoose("outerlen", 2)
	in := []glyph.ID{1, 2, 3}[:n]
	i1, i0 := verifU16("seq1"), verifU16("seq0")
	verifAssume(int(i1) < n && int(i0) < n)
	// lookup 1: single substitution +10; lookup 2: inner contextual lookup on the glyph at position i1 which
	// substitutes that glyph (+20) through lookup 3
	plus := func(d glyph.ID) *LookupTable {
		return &LookupTable{Meta: &LookupMetaInfo{LookupType: 1}, Subtables: []Subtable{&Gsub1_1{Cov: coverage.Set{1: true, 2: true, 3: true}, Delta: d}}}
	}
	innerIn := in[i1:]
	if len(innerIn) > 2 {
		innerIn = innerIn[:2]
	}
	inner := &LookupTable{Meta: &LookupMetaInfo{LookupType: 5}, Subtables: []Subtable{verifCtxSubtable(innerFmt, innerIn, []SeqLookup{{SequenceIndex: 0, LookupListIndex: 3}})}}
	outer := &LookupTable{Meta: &LookupMetaInfo{LookupType: 5}, Subtables: []Subtable{verifCtxSubtable(outerFmt, in,
		[]SeqLookup{{SequenceIndex: i1, LookupListIndex: 2}, {SequenceIndex: i0, LookupListIndex: 1}})}}
	ll := LookupList{outer, plus(10), inner, plus(20)}
	var seq []glyph.Info
	for rep := 0; rep < 2; rep++ {
		for _, g := range in {
			seq = append(seq, glyph.Info{GID: g, Text: []rune{rune('a' + len(seq))}, Advance: 100})
		}
	}
	want := refShape(ll, nil, []LookupIndex{0}, seq)
	ctx := NewContext(ll, nil, []LookupIndex{0})
	got := ctx.Apply(refCopy(seq))
	verifAssert(sameSeq(got, want), "scratch: both matches equal the reference")
	got2 := ctx.Apply(refCopy(seq))
	verifAssert(sameSeq(got2, want), "scratch: a second Apply on the same Context equals the reference")
	verifReach("applied")
}

// VerifH_C07_gposmut: the GPOS subtable readers on every encoding that differs from a valid subtable
// (single, pair, class pair, cursive, mark-to-base, mark-to-mark) in one arbitrary 16-bit word: whatever the
// reader accepts is applied to a symbolic glyph sequence without a panic (out-of-range class, mark-class,
// count and offset values included) and can be re-encoded.
func VerifH_C07_gposmut() {
	kind := verifChoose("kind", 7)
	vr := &GposValueRecord{XAdvance: 5}
	an := func(x, y int16) anchor.Table { return anchor.Table{X: funit.Int16(x), Y: funit.Int16(y)} }
	var st Subtable
	var lt uint16
	switch kind {
	case 0:
		st, lt = &Gpos1_1{Cov: coverage.Table{1: 0, 2: 1}, Adjust: vr}, 1
	case 1:
		st, lt = &Gpos1_2{Cov: coverage.Table{1: 0, 2: 1}, Adjust: []*GposValueRecord{vr, {YPlacement: 3}}}, 1
	case 2:
		st, lt = Gpos2_1{glyph.Pair{Left: 1, Right: 2}: &PairAdjust{First: vr}, glyph.Pair{Left: 2, Right: 1}: &PairAdjust{First: vr, Second: vr}}, 2
	case 3:
		st, lt = &Gpos2_2{Cov: coverage.Set{1: true, 2: true}, Class1: classdef.Table{2: 1}, Class2: classdef.Table{1: 1},
			Adjust: [][]*PairAdjust{{{First: vr}, {First: vr}}, {{First: vr}, {First: vr, Second: vr}}}}, 2
	case 4:
		st, lt = &Gpos3_1{Cov: coverage.Table{1: 0, 2: 1}, Records: []EntryExitRecord{{Entry: an(1, 2), Exit: an(3, 4)}, {Exit: an(5, 6)}}}, 3
	case 5:
		st, lt = &Gpos4_1{MarkCov: coverage.Table{3: 0, 4: 1}, BaseCov: coverage.Table{1: 0, 2: 1},
			MarkArray: []markarray.Record{{Class: 0, Table: an(1, 1)}, {Class: 1, Table: an(2, 2)}},
			BaseArray: [][]anchor.Table{{an(10, 10), an(20, 20)}, {an(30, 30), an(40, 40)}}}, 4
	default:
		st, lt = &Gpos6_1{Mark1Cov: coverage.Table{3: 0, 4: 1}, Mark2Cov: coverage.Table{1: 0, 2: 1},
			Mark1Array: []markarray.Record{{Class: 0, Table: an(1, 1)}, {Class: 1, Table: an(2, 2)}},
			Mark2Array: [][]anchor.Table{{an(10, 10), an(20, 20)}, {an(30, 30), an(40, 40)}}}, 6
	}
	enc := st.encode()
	verifAssert(len(enc) == st.encodeLen(), "encodeLen consistent")
	pos := 2 * verifChoose("word", len(enc)/2)
	enc[pos], enc[pos+1] = verifU8("hi"), verifU8("lo")
	if kind <= 3 && (pos == 4 || (pos == 6 && kind >= 2)) {
		// value formats: vertical advance and device offsets are declared unimplemented by the library
		// (GposValueRecord.Apply panics "not implemented") and excluded by the property
		verifAssume(enc[pos] == 0 && enc[pos+1]&0xF8 == 0)
	}
	meta := &LookupMetaInfo{LookupType: lt}
	verifLoopCut(verifParam("loopcut", 8))
	got, err := readGposSubtable(verifParser(enc), 0, meta)
	if err != nil {
		verifReach("rejected")
		return
	}
	verifReach("accepted")
	ll := LookupList{{Meta: meta, Subtables: []Subtable{got}}}
	seq := make([]glyph.Info, 2+verifChoose("len", 2))
	for i := range seq {
		g := glyph.ID(verifU16("gid"))
		verifAssume(g <= 5)
		seq[i] = glyph.Info{GID: g, Text: []rune{rune('a' + i)}, Advance: 100}
	}
	out := NewContext(ll, nil, []LookupIndex{0}).Apply(seq)
	verifAssert(len(out) == len(seq), "positioning keeps the sequence length")
	e2 := got.encode()
	verifAssert(len(e2) == got.encodeLen(), "encodeLen consistent for accepted subtables")
}

// VerifH_C07_sharedtext: text conservation when the Text fields of the input glyphs are sub-slices of one
// rune slice (each with spare capacity reaching into the following characters, as a caller converting a
// string once would produce them): ligature substitution with ignored glyphs between the components must
// not write through into the text of other glyphs.
func VerifH_C07_sharedtext() {
	meta := &LookupMetaInfo{LookupType: 4}
	if verifBool("ignoremarks") {
		meta.LookupFlags = IgnoreMarks
	}
	gd := &gdef.Table{GlyphClass: classdef.Table{1: 1, 2: 1, 3: 1, 4: 3}}
	st := &Gsub4_1{Cov: coverage.Table{1: 0}, Repl: [][]Ligature{{{In: []glyph.ID{2, 3}, Out: 10}, {In: []glyph.ID{2}, Out: 11}}}}
	ll := LookupList{{Meta: meta, Subtables: []Subtable{st}}}
	n := 3 + verifChoose("len", 2)
	all := make([]rune, n)
	seq := make([]glyph.Info, n)
	for i := range seq {
		g := glyph.ID(verifU16("gid"))
		verifAssume(g >= 1 && g <= 4)
		all[i] = rune('a' + i)
		seq[i] = glyph.Info{GID: g, Text: all[i : i+1], Advance: 100}
	}
	want := refShape(ll, gd, []LookupIndex{0}, seq) // the reference copies every Text before it starts
	got := NewContext(ll, gd, []LookupIndex{0}).Apply(seq)
	verifReach("applied")
	verifAssert(sameSeq(got, want), "shared text: result equals the reference")
	count := make([]int, n)
	for _, g := range got {
		for _, r := range g.Text {
			if k := int(r - 'a'); k >= 0 && k < n {
				count[k]++
			}
		}
	}
	for _, c := range count {
		verifAssert(c == 1, "shared text: every input character appears exactly once in the output")
	}
}
