//go:build verif

package gtab

import (
	"golang.org/x/text/language"
)

// VerifH_C15_find: FindLookups includes the required feature's lookups, honours the feature switches, returns
// in-range lookup indices in ascending order without duplicates, and does not depend on map iteration order.
func VerifH_C15_find() {
	nl := 3 // lookups in the list
	info := &Info{LookupList: make(LookupList, nl)}
	for i := range info.LookupList {
		info.LookupList[i] = &LookupTable{Meta: &LookupMetaInfo{LookupType: 1}}
	}
	lk := func(tag string) LookupIndex {
		x := LookupIndex(verifU16(tag))
		verifAssume(x <= 4) // also out-of-range indices
		return x
	}
	info.FeatureList = []*Feature{
		{Tag: "liga", Lookups: []LookupIndex{lk("l0"), 2}},
		{Tag: "kern", Lookups: []LookupIndex{1}},
		{Tag: "smcp", Lookups: []LookupIndex{0}},
	}
	req := FeatureIndex(verifU16("required"))
	verifAssume(req <= 3 || req == 0xFFFF)
	nsys := 1 + verifChoose("systems", 2)
	tags := []language.Tag{language.MustParse("und-Latn-x-latn"), language.MustParse("de-Latn-x-latn"), language.MustParse("und-Grek-x-grek")}
	info.ScriptList = ScriptListInfo{}
	for i := 0; i < nsys; i++ {
		r := req
		if i > 0 {
			r = 0xFFFF
		}
		info.ScriptList[tags[i]] = &Features{Required: r, Optional: []FeatureIndex{0, 2, 7}}
	}
	var switches map[string]bool
	if verifChoose("switches", 2) == 1 {
		switches = map[string]bool{"liga": verifBool("liga"), "smcp": verifBool("smcp")}
	} else {
		switches = GsubDefaultFeatures
	}
	lang := []language.Tag{language.MustParse("en"), language.MustParse("de"), language.MustParse("ja")}[verifChoose("lang", 3)]
	verifMapOrder(true)
	got := info.FindLookups(lang, switches)
	again := info.FindLookups(lang, switches)
	verifMapOrder(false)
	verifReach("found")
	verifAssert(verifSame(got, again), "the same on every call (independent of map iteration order)")
	for i, l := range got {
		verifAssert(int(l) < nl, "lookup indices in range")
		if i > 0 {
			verifAssert(got[i-1] < l, "ascending, without duplicates")
		}
	}
}
