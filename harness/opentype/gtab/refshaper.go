//go:build verif

package gtab

import (
	"seehuhn.de/go/sfnt/glyph"
	"seehuhn.de/go/sfnt/opentype/classdef"
	"seehuhn.de/go/sfnt/opentype/coverage"
	"seehuhn.de/go/sfnt/opentype/gdef"
)

// Reference shaper: a direct, unoptimised transcription of the OpenType lookup rules
// (OpenType spec, chapter "Common Table Formats" / GSUB / GPOS) for the lookup types it covers:
// GSUB 1 (both formats), 2, 3, 4 and GPOS 1 (both formats), 2.1/2.2, sequence context formats 1, 2 and 3 and
// chained sequence context formats 1, 2 and 3 with nested lookups of those types.  It shares no code with layout.go / gsub.go / gpos.go: every step
// builds fresh slices.

// refSkip reports whether the lookup flags tell the lookup to ignore glyph g.
func refSkip(meta *LookupMetaInfo, gd *gdef.Table, g glyph.ID) bool {
	if gd == nil || gd.GlyphClass == nil {
		return false
	}
	f := meta.LookupFlags
	switch gd.GlyphClass[g] {
	case 1: // base
		return f&0x0002 != 0
	case 2: // ligature
		return f&0x0004 != 0
	case 3: // mark
		if f&0x0008 != 0 {
			return true
		}
		if f&0x0010 != 0 {
			if int(meta.MarkFilteringSet) >= len(gd.MarkGlyphSets) {
				return true // undefined set: no mark is in it
			}
			return !gd.MarkGlyphSets[meta.MarkFilteringSet][g]
		}
		if t := uint16(f >> 8); t != 0 {
			return gd.MarkAttachClass == nil || gd.MarkAttachClass[g] != t
		}
	}
	return false
}

func refCopy(seq []glyph.Info) []glyph.Info {
	out := make([]glyph.Info, len(seq))
	for i, g := range seq {
		out[i] = g
		out[i].Text = append([]rune(nil), g.Text...)
	}
	return out
}

func refAdjust(g *glyph.Info, vr *GposValueRecord) {
	if vr == nil {
		return
	}
	g.XOffset += vr.XPlacement
	g.YOffset += vr.YPlacement
	g.Advance += vr.XAdvance
}

// refAt tries the subtables of one lookup at position i.  It returns the new sequence and the position
// where scanning continues, or ok=false when no subtable matches.
func refAt(ll LookupList, gd *gdef.Table, lk *LookupTable, seq []glyph.Info, i int, depth int) ([]glyph.Info, int, bool) {
	meta := lk.Meta
	for _, st := range lk.Subtables {
		g := seq[i].GID
		switch s := st.(type) {
		case *Gsub1_1:
			if s.Cov[g] {
				out := refCopy(seq)
				out[i].GID = g + s.Delta
				return out, i + 1, true
			}
		case *Gsub1_2:
			if idx, ok := s.Cov[g]; ok {
				out := refCopy(seq)
				out[i].GID = s.SubstituteGlyphIDs[idx]
				return out, i + 1, true
			}
		case *Gsub2_1:
			if idx, ok := s.Cov[g]; ok {
				repl := s.Repl[idx]
				var out []glyph.Info
				out = append(out, refCopy(seq[:i])...)
				for k, r := range repl {
					ng := glyph.Info{GID: r}
					if k == 0 {
						ng = refCopy(seq[i : i+1])[0]
						ng.GID = r
					}
					out = append(out, ng)
				}
				out = append(out, refCopy(seq[i+1:])...)
				return out, i + len(repl), true
			}
		case *Gsub3_1:
			if idx, ok := s.Cov[g]; ok && len(s.Alternates[idx]) > 0 {
				out := refCopy(seq)
				out[i].GID = s.Alternates[idx][0]
				return out, i + 1, true
			}
		case *Gsub4_1:
			idx, ok := s.Cov[g]
			if !ok {
				continue
			}
			for _, lig := range s.Repl[idx] {
				// match the components, skipping ignored glyphs
				j := i + 1
				var skipped, matched []int
				matched = append(matched, i)
				good := true
				for _, comp := range lig.In {
					for j < len(seq) && refSkip(meta, gd, seq[j].GID) {
						skipped = append(skipped, j)
						j++
					}
					if j >= len(seq) || seq[j].GID != comp {
						good = false
						break
					}
					matched = append(matched, j)
					j++
				}
				if !good {
					continue
				}
				var text []rune
				for _, m := range matched {
					text = append(text, seq[m].Text...)
				}
				var out []glyph.Info
				out = append(out, refCopy(seq[:i])...)
				out = append(out, glyph.Info{GID: lig.Out, Text: text})
				for _, k := range skipped {
					out = append(out, refCopy(seq[k:k+1])...)
				}
				out = append(out, refCopy(seq[j:])...)
				return out, i + 1 + len(skipped), true
			}
		case *Gpos1_1:
			if _, ok := s.Cov[g]; ok {
				out := refCopy(seq)
				refAdjust(&out[i], s.Adjust)
				return out, i + 1, true
			}
		case *Gpos1_2:
			if idx, ok := s.Cov[g]; ok {
				out := refCopy(seq)
				refAdjust(&out[i], s.Adjust[idx])
				return out, i + 1, true
			}
		case Gpos2_1:
			j := i + 1
			for j < len(seq) && refSkip(meta, gd, seq[j].GID) {
				j++
			}
			if j >= len(seq) {
				continue
			}
			adj, ok := s[glyph.Pair{Left: g, Right: seq[j].GID}]
			if !ok {
				continue
			}
			out := refCopy(seq)
			refAdjust(&out[i], adj.First)
			if adj.Second == nil {
				// the second glyph may start the next pair
				return out, j, true
			}
			refAdjust(&out[j], adj.Second)
			return out, j + 1, true
		case *Gpos2_2:
			// class pair adjustment: first glyph covered; classes of both glyphs select the record
			if !s.Cov[g] {
				continue
			}
			j := i + 1
			for j < len(seq) && refSkip(meta, gd, seq[j].GID) {
				j++
			}
			if j >= len(seq) {
				continue
			}
			c1, c2 := int(s.Class1[g]), int(s.Class2[seq[j].GID])
			if c1 >= len(s.Adjust) || c2 >= len(s.Adjust[c1]) || s.Adjust[c1][c2] == nil {
				continue
			}
			adj := s.Adjust[c1][c2]
			out := refCopy(seq)
			refAdjust(&out[i], adj.First)
			if adj.Second == nil {
				return out, j, true
			}
			refAdjust(&out[j], adj.Second)
			return out, j + 1, true
		case *Gpos4_1:
			// mark-to-base attachment: the mark at position i is attached to the nearest preceding glyph that is
			// neither a mark nor skipped by the lookup flags; that glyph has to be covered as a base.  The mark is
			// moved so that its anchor meets the anchor of the base for the mark's class; the pen has advanced over
			// the base and every glyph in between (ignored or not), so all their advances are subtracted.
			mi, ok := s.MarkCov[g]
			if !ok {
				continue
			}
			p := i - 1
			for p >= 0 && (refSkip(meta, gd, seq[p].GID) || refIsMark(gd, seq[p].GID)) {
				if _, covered := s.BaseCov[seq[p].GID]; covered {
					refUndefined = true // a covered glyph that is a mark or ignored: the library's choice is not specified
				}
				p--
			}
			if p < 0 {
				continue
			}
			bi, ok := s.BaseCov[seq[p].GID]
			if !ok {
				refUndefined = true // nearest base glyph not covered: implementations differ (this library keeps searching)
				continue
			}
			rec := s.MarkArray[mi]
			if int(rec.Class) >= len(s.BaseArray[bi]) {
				continue
			}
			ba := s.BaseArray[bi][rec.Class]
			if ba.IsEmpty() {
				continue
			}
			out := refCopy(seq)
			dx := ba.X - rec.X
			for k := p; k < i; k++ {
				dx -= seq[k].Advance
			}
			out[i].XOffset += dx
			out[i].YOffset += ba.Y - rec.Y
			return out, i + 1, true
		case *SeqContext2:
			if _, ok := s.Cov[g]; !ok || depth > 3 {
				continue
			}
			cls := int(s.Input[g])
			if cls >= len(s.Rules) {
				continue
			}
			for _, rule := range s.Rules[cls] {
				in := append([]uint16{uint16(cls)}, rule.Input...)
				if pos, e, ok := refMatchChain(meta, gd, seq, i, nil, refClasses(s.Input, in), nil); ok {
					return refNested(ll, gd, seq, pos, rule.Actions, depth), e, true
				}
			}
		case *ChainedSeqContext2:
			if _, ok := s.Cov[g]; !ok || depth > 3 {
				continue
			}
			cls := int(s.Input[g])
			if cls >= len(s.Rules) {
				continue
			}
			for _, rule := range s.Rules[cls] {
				in := append([]uint16{uint16(cls)}, rule.Input...)
				if pos, e, ok := refMatchChain(meta, gd, seq, i, refClasses(s.Backtrack, rule.Backtrack), refClasses(s.Input, in), refClasses(s.Lookahead, rule.Lookahead)); ok {
					return refNested(ll, gd, seq, pos, rule.Actions, depth), e, true
				}
			}
		case *SeqContext3:
			if depth > 3 || len(s.Input) == 0 {
				continue
			}
			if pos, e, ok := refMatchChain(meta, gd, seq, i, nil, refSets(s.Input), nil); ok {
				return refNested(ll, gd, seq, pos, s.Actions, depth), e, true
			}
		case *ChainedSeqContext3:
			if depth > 3 || len(s.Input) == 0 {
				continue
			}
			if pos, e, ok := refMatchChain(meta, gd, seq, i, refSets(s.Backtrack), refSets(s.Input), refSets(s.Lookahead)); ok {
				return refNested(ll, gd, seq, pos, s.Actions, depth), e, true
			}
		case *ChainedSeqContext1:
			idx, ok := s.Cov[g]
			if !ok || depth > 3 {
				continue
			}
			for _, rule := range s.Rules[idx] {
				in := append([]glyph.ID{g}, rule.Input...)
				if pos, e, ok := refMatchChain(meta, gd, seq, i, refGlyphs(rule.Backtrack), refGlyphs(in), refGlyphs(rule.Lookahead)); ok {
					return refNested(ll, gd, seq, pos, rule.Actions, depth), e, true
				}
			}
		case *SeqContext1:
			idx, ok := s.Cov[g]
			if !ok || depth > 3 {
				continue
			}
			for _, rule := range s.Rules[idx] {
				pos := []int{i}
				j := i
				good := true
				for _, want := range rule.Input {
					j++
					for j < len(seq) && refSkip(meta, gd, seq[j].GID) {
						j++
					}
					if j >= len(seq) || seq[j].GID != want {
						good = false
						break
					}
					pos = append(pos, j)
				}
				if !good {
					continue
				}
				// nested lookups: each at its recorded sequence position (substitutions of one glyph
				// by one glyph only in this reference, so positions stay valid)
				out := refCopy(seq)
				for _, act := range rule.Actions {
					if int(act.SequenceIndex) >= len(pos) || int(act.LookupListIndex) >= len(ll) {
						continue
					}
					p := pos[act.SequenceIndex]
					nl := ll[act.LookupListIndex]
					if refSkip(nl.Meta, gd, out[p].GID) {
						continue
					}
					if o2, _, ok := refAt(ll, gd, nl, out, p, depth+1); ok {
						out = o2
					}
				}
				// continue after the matched input and any ignored glyphs following it
				e := j + 1
				for e < len(seq) && refSkip(meta, gd, seq[e].GID) {
					e++
				}
				return out, e, true
			}
		}
	}
	return nil, 0, false
}

// refShape applies the lookups in the given order.
func refShape(ll LookupList, gd *gdef.Table, order []LookupIndex, seq []glyph.Info) []glyph.Info {
	seq = refCopy(seq)
	for _, li := range order {
		if int(li) >= len(ll) {
			continue
		}
		lk := ll[li]
		i := 0
		for i < len(seq) {
			if refSkip(lk.Meta, gd, seq[i].GID) {
				i++
				continue
			}
			out, next, ok := refAt(ll, gd, lk, seq, i, 0)
			if !ok {
				i++
				continue
			}
			seq = out
			if next <= i {
				next = i + 1
			}
			i = next
		}
	}
	return seq
}

func sameSeq(a, b []glyph.Info) bool {
	if len(a) != len(b) {
		return false
	}
	for i := range a {
		if a[i].GID != b[i].GID || a[i].XOffset != b[i].XOffset || a[i].YOffset != b[i].YOffset || a[i].Advance != b[i].Advance || !verifSame(a[i].Text, b[i].Text) {
			return false
		}
	}
	return true
}

// refUndefined is set when the reference meets a situation whose outcome the specification leaves open.
var refUndefined bool

func refIsMark(gd *gdef.Table, g glyph.ID) bool {
	return gd != nil && gd.GlyphClass != nil && gd.GlyphClass[g] == 3
}

type refPred func(glyph.ID) bool

func refSets(cc []coverage.Set) []refPred {
	var out []refPred
	for _, c := range cc {
		c := c
		out = append(out, func(g glyph.ID) bool { return c[g] })
	}
	return out
}

func refClasses(cd classdef.Table, cc []uint16) []refPred {
	var out []refPred
	for _, w := range cc {
		w := w
		out = append(out, func(g glyph.ID) bool { return cd[g] == w })
	}
	return out
}

func refGlyphs(gg []glyph.ID) []refPred {
	var out []refPred
	for _, w := range gg {
		w := w
		out = append(out, func(g glyph.ID) bool { return g == w })
	}
	return out
}

// refMatchChain matches a (chained) context at position i as the OpenType specification describes it: the
// input sequence starts at seq[i]; further input glyphs, the backtrack sequence (closest glyph first, going
// backwards from i) and the lookahead sequence (going forwards from the last input glyph, to the end of the
// glyph sequence) are matched while glyphs ignored by the lookup flags are skipped.  Returns the positions
// of the input glyphs and the position where scanning continues.
func refMatchChain(meta *LookupMetaInfo, gd *gdef.Table, seq []glyph.Info, i int, back, input, look []refPred) ([]int, int, bool) {
	if !input[0](seq[i].GID) {
		return nil, 0, false
	}
	pos := []int{i}
	j := i
	for _, want := range input[1:] {
		j++
		for j < len(seq) && refSkip(meta, gd, seq[j].GID) {
			j++
		}
		if j >= len(seq) || !want(seq[j].GID) {
			return nil, 0, false
		}
		pos = append(pos, j)
	}
	b := i
	for _, want := range back {
		b--
		for b >= 0 && refSkip(meta, gd, seq[b].GID) {
			b--
		}
		if b < 0 || !want(seq[b].GID) {
			return nil, 0, false
		}
	}
	a := j
	for _, want := range look {
		a++
		for a < len(seq) && refSkip(meta, gd, seq[a].GID) {
			a++
		}
		if a >= len(seq) || !want(seq[a].GID) {
			return nil, 0, false
		}
	}
	e := j + 1
	for e < len(seq) && refSkip(meta, gd, seq[e].GID) {
		e++
	}
	return pos, e, true
}

// refNested applies the nested lookups of a matched rule, each at its recorded input position (nested lookups
// that keep the sequence length only, so positions stay valid).
func refNested(ll LookupList, gd *gdef.Table, seq []glyph.Info, pos []int, actions []SeqLookup, depth int) []glyph.Info {
	out := refCopy(seq)
	for _, act := range actions {
		if int(act.SequenceIndex) >= len(pos) || int(act.LookupListIndex) >= len(ll) {
			continue
		}
		p := pos[act.SequenceIndex]
		nl := ll[act.LookupListIndex]
		if refSkip(nl.Meta, gd, out[p].GID) {
			continue
		}
		if o2, _, ok := refAt(ll, gd, nl, out, p, depth+1); ok {
			out = o2
		}
	}
	return out
}
