//go:build verif

package gtab

import (
	"seehuhn.de/go/sfnt/opentype/anchor"
	"seehuhn.de/go/sfnt/opentype/markarray"

	"seehuhn.de/go/postscript/funit"
	"seehuhn.de/go/sfnt/glyph"
	"seehuhn.de/go/sfnt/opentype/classdef"
	"seehuhn.de/go/sfnt/opentype/coverage"
	"seehuhn.de/go/sfnt/opentype/gdef"
)

// verifSeq builds an input sequence of n glyphs with symbolic ids in 1..alphabet; glyph i carries the text 'a'+i.
func verifSeq(n, alphabet int) []glyph.Info {
	seq := make([]glyph.Info, n)
	for i := range seq {
		g := glyph.ID(verifU16("gid"))
		verifAssume(g >= 1 && int(g) <= alphabet)
		seq[i] = glyph.Info{GID: g, Text: []rune{rune('a' + i)}, Advance: funit.Int16(100 * (i + 1))}
	}
	return seq
}

// verifGdef: glyphs 1..3 are base glyphs, glyph 4 has a symbolic class, glyphs 10.. are ligatures;
// mark attachment class of glyph 4 symbolic; one mark glyph set which contains glyph 4 or not.
func verifGdef() *gdef.Table {
	c4 := verifU16("class4")
	verifAssume(c4 <= 3)
	gd := &gdef.Table{GlyphClass: classdef.Table{1: 1, 2: 1, 3: 1, 10: 2, 11: 2, 12: 2}, MarkAttachClass: classdef.Table{}}
	if c4 != 0 {
		gd.GlyphClass[4] = c4
	}
	ac := verifU16("attach4")
	verifAssume(ac <= 2)
	if ac != 0 {
		gd.MarkAttachClass[4] = ac
	}
	set := coverage.Set{}
	if verifBool("inset4") {
		set[4] = true
	}
	gd.MarkGlyphSets = []coverage.Set{set}
	return gd
}

// verifFlags: symbolic lookup flags over the ignore bits, the mark filtering set bit and mark attachment types 0..2.
func verifFlags() *LookupMetaInfo {
	f := LookupFlags(verifU16("flags"))
	verifAssume(f&^0x031E == 0 && f>>8 <= 2)
	return &LookupMetaInfo{LookupFlags: f, MarkFilteringSet: 0}
}

func checkShape(ll LookupList, gd *gdef.Table, order []LookupIndex, seq []glyph.Info, label string) {
	want := refShape(ll, gd, order, seq)
	in := refCopy(seq)
	ctx := NewContext(ll, gd, order)
	got := ctx.Apply(in)
	verifReach("applied")
	verifAssert(sameSeq(got, want), label+": result equals the reference implementation of the OpenType rules")
	// text conservation (C07): every input character appears exactly once
	count := make([]int, len(seq))
	extra := false
	for _, g := range got {
		for _, r := range g.Text {
			k := int(r - 'a')
			if k < 0 || k >= len(seq) {
				extra = true
			} else {
				count[k]++
			}
		}
	}
	ok := !extra
	for _, c := range count {
		if c != 1 {
			ok = false
		}
	}
	verifAssert(ok, label+": every input character appears exactly once in the output")
}

// VerifH_C06_single: GSUB 1.1/1.2/3.1 and GPOS 1.1 under all flag / GDEF class combinations.
func VerifH_C06_single() {
	meta := verifFlags()
	gd := verifGdef()
	var st Subtable
	switch verifChoose("type", 4) {
	case 0:
		meta.LookupType = 1
		st = &Gsub1_1{Cov: coverage.Set{1: true, 4: true}, Delta: glyph.ID(verifU16("delta"))}
	case 1:
		meta.LookupType = 1
		st = &Gsub1_2{Cov: coverage.Table{2: 0, 4: 1}, SubstituteGlyphIDs: []glyph.ID{glyph.ID(verifU16("s0")), glyph.ID(verifU16("s1"))}}
	case 2:
		meta.LookupType = 3
		st = &Gsub3_1{Cov: coverage.Table{3: 0, 4: 1}, Alternates: [][]glyph.ID{{glyph.ID(verifU16("a0")), 9}, {glyph.ID(verifU16("a1"))}}}
	default:
		meta.LookupType = 1
		st = &Gpos1_1{Cov: coverage.Table{1: 0, 4: 1}, Adjust: &GposValueRecord{XPlacement: funit.Int16(verifI16("xp")), YPlacement: funit.Int16(verifI16("yp")), XAdvance: funit.Int16(verifI16("xa"))}}
	}
	ll := LookupList{{Meta: meta, Subtables: []Subtable{st}}}
	seq := verifSeq(1+verifChoose("len", verifParam("maxlen", 3)), 4)
	checkShape(ll, gd, []LookupIndex{0}, seq, "single")
}

// VerifH_C06_multiple: GSUB 2.1 (one-to-many) followed by a single substitution lookup.
func VerifH_C06_multiple() {
	meta := verifFlags()
	meta.LookupType = 2
	gd := verifGdef()
	st := &Gsub2_1{Cov: coverage.Table{1: 0, 4: 1}, Repl: [][]glyph.ID{{glyph.ID(verifU16("r0")), 2}, {3, glyph.ID(verifU16("r1")), 1}}}
	m2 := &LookupMetaInfo{LookupType: 1}
	ll := LookupList{{Meta: meta, Subtables: []Subtable{st}}, {Meta: m2, Subtables: []Subtable{&Gsub1_1{Cov: coverage.Set{2: true}, Delta: 20}}}}
	seq := verifSeq(1+verifChoose("len", verifParam("maxlen", 3)), 4)
	order := [][]LookupIndex{{0}, {0, 1}, {1, 0}}[verifChoose("order", 3)]
	checkShape(ll, gd, order, seq, "multiple")
}

// VerifH_C06_ligature: two ligature candidates where the first can match partially, with ignored glyphs in between.
func VerifH_C06_ligature() {
	meta := verifFlags()
	meta.LookupType = 4
	gd := verifGdef()
	st := &Gsub4_1{Cov: coverage.Table{1: 0, 2: 1}, Repl: [][]Ligature{
		{{In: []glyph.ID{2, 3}, Out: 10}, {In: []glyph.ID{2}, Out: 11}},
		{{In: []glyph.ID{glyph.ID(verifU16("comp"))}, Out: 12}},
	}}
	ll := LookupList{{Meta: meta, Subtables: []Subtable{st}}}
	seq := verifSeq(2+verifChoose("len", verifParam("maxlen", 3)), 4)
	checkShape(ll, gd, []LookupIndex{0}, seq, "ligature")
}

// VerifH_C06_pair: GPOS 2.1 pairs with and without a second value record, with ignored glyphs between the pair.
func VerifH_C06_pair() {
	meta := verifFlags()
	meta.LookupType = 2
	gd := verifGdef()
	vr := func(tag string) *GposValueRecord {
		return &GposValueRecord{XPlacement: funit.Int16(verifI16(tag + ".xp")), XAdvance: funit.Int16(verifI16(tag + ".xa"))}
	}
	st := Gpos2_1{
		glyph.Pair{Left: 1, Right: 2}: &PairAdjust{First: vr("a")},
		glyph.Pair{Left: 2, Right: 1}: &PairAdjust{First: vr("b"), Second: vr("c")},
		glyph.Pair{Left: 2, Right: 2}: &PairAdjust{First: vr("d")},
	}
	ll := LookupList{{Meta: meta, Subtables: []Subtable{st}}}
	seq := verifSeq(2+verifChoose("len", verifParam("maxlen", 3)), 4)
	checkShape(ll, gd, []LookupIndex{0}, seq, "pair")
}

// VerifH_C06_pairclass: GPOS 2.2 (class pairs) with symbolic classes of the alphabet glyphs, with and without
// second records, with ignored glyphs inside the pair.
func VerifH_C06_pairclass() {
	seqLen := 2 + verifChoose("len", verifParam("maxlen", 2)) // first decision: one process per length
	meta := verifFlags()
	meta.LookupType = 2
	gd := verifGdef()
	vr := func(tag string) *GposValueRecord {
		return &GposValueRecord{XPlacement: funit.Int16(verifI16(tag + ".xp")), XAdvance: funit.Int16(verifI16(tag + ".xa"))}
	}
	cls := func(tag string, max uint16) uint16 {
		c := verifU16(tag)
		verifAssume(c <= max)
		return c
	}
	// class values may equal or exceed the dimensions of the adjustment matrix (2 x 2)
	st := &Gpos2_2{Cov: coverage.Set{1: true, 2: true},
		Class1: classdef.Table{1: cls("c1.1", 2), 2: 1},
		Class2: classdef.Table{2: cls("c2.2", 2), 3: 1},
		Adjust: [][]*PairAdjust{
			{{First: vr("a00")}, {First: vr("a01"), Second: vr("b01")}},
			{{First: vr("a10"), Second: vr("b10")}, {First: vr("a11")}},
		}}
	for _, t := range []classdef.Table{st.Class1, st.Class2} {
		for g, c := range t {
			if c == 0 {
				delete(t, g)
			}
		}
	}
	ll := LookupList{{Meta: meta, Subtables: []Subtable{st}}}
	seq := verifSeq(seqLen, 4)
	checkShape(ll, gd, []LookupIndex{0}, seq, "class pair")
	_ = cls
}

// VerifH_C06_context: sequence context format 1 running nested single substitutions at recorded positions.
func VerifH_C06_context() {
	meta := verifFlags()
	meta.LookupType = 5
	gd := verifGdef()
	st := &SeqContext1{Cov: coverage.Table{1: 0}, Rules: [][]*SeqRule{{
		{Input: []glyph.ID{2, 3}, Actions: []SeqLookup{{SequenceIndex: 2, LookupListIndex: 1}, {SequenceIndex: 0, LookupListIndex: 1}}},
		{Input: []glyph.ID{2}, Actions: []SeqLookup{{SequenceIndex: verifU16("seqidx"), LookupListIndex: LookupIndex(verifU16("lookup"))}}},
	}}}
	verifAssume(st.Rules[0][1].Actions[0].SequenceIndex <= 2 && st.Rules[0][1].Actions[0].LookupListIndex <= 2)
	nested := &LookupMetaInfo{LookupType: 1}
	ll := LookupList{{Meta: meta, Subtables: []Subtable{st}}, {Meta: nested, Subtables: []Subtable{&Gsub1_1{Cov: coverage.Set{1: true, 2: true, 3: true}, Delta: 30}}}}
	seq := verifSeq(2+verifChoose("len", verifParam("maxlen", 3)), 4)
	checkShape(ll, gd, []LookupIndex{0}, seq, "context")
}

// VerifH_C06_chained: chained contexts (glyph based and coverage based) at top level and as a nested lookup of
// a contextual rule, where the nested rule's lookahead lies behind the parent's input sequence.
func VerifH_C06_chained() {
	shape := verifChoose("shape", 4) // first decision: one process per shape
	// flags: nothing ignored or marks ignored; glyph 4 is a mark or unclassified (the full flag / GDEF space is
	// covered by the other C06 harnesses, which share keepFunc with this code)
	meta := &LookupMetaInfo{LookupType: 6}
	if verifBool("ignoremarks") {
		meta.LookupFlags = IgnoreMarks
	}
	gd := &gdef.Table{GlyphClass: classdef.Table{1: 1, 2: 1, 3: 1}}
	if verifBool("mark4") {
		gd.GlyphClass[4] = 3
	}
	single := &LookupTable{Meta: &LookupMetaInfo{LookupType: 1}, Subtables: []Subtable{&Gsub1_1{Cov: coverage.Set{1: true, 2: true, 3: true}, Delta: 30}}}
	set := func(tag string) coverage.Set {
		// a solver-chosen subset of {1,2} (glyph 3 is in no set, glyph 4 is the ignorable one)
		// (membership is stored as a symbolic truth value: no case split until a lookup needs it)
		m := verifU8(tag)
		s := coverage.Set{}
		for g := glyph.ID(1); g <= 2; g++ {
			s[g] = m&(1<<g) != 0
		}
		return s
	}
	small := func(tag string, n int) []glyph.ID {
		gg := verifGIDList(tag, n)
		for _, g := range gg {
			verifAssume(g >= 1 && g <= 4)
		}
		return gg
	}
	act := []SeqLookup{{SequenceIndex: verifU16("seqidx"), LookupListIndex: 1}}
	verifAssume(act[0].SequenceIndex <= 2)
	var ll LookupList
	switch shape {
	case 0: // coverage based, top level
		st := &ChainedSeqContext3{Backtrack: []coverage.Set{set("b")}, Input: []coverage.Set{set("i0"), set("i1")}, Lookahead: []coverage.Set{set("l")}, Actions: act}
		ll = LookupList{{Meta: meta, Subtables: []Subtable{st}}, single}
	case 1: // glyph based, top level
		st := &ChainedSeqContext1{Cov: coverage.Table{1: 0}, Rules: [][]*ChainedSeqRule{{{Backtrack: small("b", 1), Input: small("i", 1), Lookahead: small("l", 1), Actions: act}}}}
		ll = LookupList{{Meta: meta, Subtables: []Subtable{st}}, single}
	case 2: // a contextual rule over one or two glyphs whose nested lookup is a coverage based chaining rule
		inner := &LookupTable{Meta: &LookupMetaInfo{LookupType: 6, LookupFlags: meta.LookupFlags}, Subtables: []Subtable{
			&ChainedSeqContext3{Backtrack: []coverage.Set{}, Input: []coverage.Set{set("i0")}, Lookahead: []coverage.Set{set("l")}, Actions: []SeqLookup{{SequenceIndex: 0, LookupListIndex: 1}}}}}
		outer := &SeqContext1{Cov: coverage.Table{1: 0}, Rules: [][]*SeqRule{{{Input: small("oi", verifChoose("olen", 2)), Actions: []SeqLookup{{SequenceIndex: verifU16("oseq"), LookupListIndex: 2}}}}}}
		verifAssume(outer.Rules[0][0].Actions[0].SequenceIndex <= 1)
		meta.LookupType = 5
		ll = LookupList{{Meta: meta, Subtables: []Subtable{outer}}, single, inner}
	default: // the same with a coverage based outer rule and a backtrack glyph in front of the parent's input
		inner := &LookupTable{Meta: &LookupMetaInfo{LookupType: 6}, Subtables: []Subtable{
			&ChainedSeqContext3{Backtrack: []coverage.Set{set("b")}, Input: []coverage.Set{set("i0")}, Lookahead: []coverage.Set{set("l")}, Actions: []SeqLookup{{SequenceIndex: 0, LookupListIndex: 1}}}}}
		outer := &SeqContext3{Input: []coverage.Set{set("o0")}, Actions: []SeqLookup{{SequenceIndex: 0, LookupListIndex: 2}}}
		meta.LookupType = 5
		ll = LookupList{{Meta: meta, Subtables: []Subtable{outer}}, single, inner}
	}
	seq := verifSeq(2+verifChoose("len", verifParam("maxlen", 2)), 4)
	checkShape(ll, gd, []LookupIndex{0}, seq, "chained context")
}

// VerifH_C06_markbase: mark-to-base attachment (GPOS 4.1) with symbolic anchors and advances, all lookup flag /
// GDEF combinations, and a solver-chosen glyph between the base and the mark (a mark, an ignored ligature, ...).
func VerifH_C06_markbase() {
	meta := verifFlags()
	meta.LookupType = 4
	gd := verifGdef() // glyphs 1..3 base, 10..12 ligatures, glyph 4: symbolic class
	gd.GlyphClass[5] = 3
	an := func(tag string) anchor.Table {
		return anchor.Table{X: funit.Int16(verifI16(tag + "x")), Y: funit.Int16(verifI16(tag + "y"))}
	}
	st := &Gpos4_1{MarkCov: coverage.Table{5: 0}, BaseCov: coverage.Table{1: 0},
		MarkArray: []markarray.Record{{Class: verifU16("class"), Table: an("m")}},
		BaseArray: [][]anchor.Table{{an("b0"), an("b1")}}}
	verifAssume(st.MarkArray[0].Class <= 2)
	ll := LookupList{{Meta: meta, Subtables: []Subtable{st}}}
	// base, then nothing / glyph 4 (symbolic class) / ligature 10, then the mark; advances symbolic
	var gids []glyph.ID
	switch verifChoose("between", 3) {
	case 0:
		gids = []glyph.ID{1, 5}
	case 1:
		gids = []glyph.ID{1, 4, 5}
	default:
		gids = []glyph.ID{1, 10, 5}
	}
	var seq []glyph.Info
	for i, g := range gids {
		adv := verifI16("adv")
		verifAssume(adv >= 0 && adv <= 1000)
		seq = append(seq, glyph.Info{GID: g, Text: []rune{rune('a' + i)}, Advance: funit.Int16(adv)})
	}
	refUndefined = false
	want := refShape(ll, gd, []LookupIndex{0}, seq)
	got := NewContext(ll, gd, []LookupIndex{0}).Apply(refCopy(seq))
	verifReach("applied")
	verifAssert(refUndefined || sameSeq(got, want), "mark-to-base: result equals the reference implementation of the OpenType rules")
}

// VerifH_C06_pairresume: where scanning resumes after a pair adjustment (GPOS 2.1 and 2.2): behind the second
// glyph when it received a value record, at the second glyph otherwise, with ignored glyphs between the two.
// Sequences of four glyphs over {1,2,3,4}; glyph 4 is a mark, marks are ignored or not.
func VerifH_C06_pairresume() {
	meta := &LookupMetaInfo{LookupType: 2}
	if verifBool("ignoremarks") {
		meta.LookupFlags = IgnoreMarks
	}
	gd := &gdef.Table{GlyphClass: classdef.Table{1: 1, 2: 1, 3: 1, 4: 3}}
	first := &GposValueRecord{XAdvance: funit.Int16(verifI16("first"))}
	var second *GposValueRecord
	if verifBool("second") {
		second = &GposValueRecord{XPlacement: funit.Int16(verifI16("second"))}
	}
	var st Subtable
	if verifBool("classes") {
		st = &Gpos2_2{Cov: coverage.Set{1: true, 2: true}, Class1: classdef.Table{}, Class2: classdef.Table{2: 1, 3: 1},
			Adjust: [][]*PairAdjust{{{}, {First: first, Second: second}}}}
	} else {
		st = Gpos2_1{glyph.Pair{Left: 1, Right: 2}: &PairAdjust{First: first, Second: second}, glyph.Pair{Left: 2, Right: 3}: &PairAdjust{First: first, Second: second},
			glyph.Pair{Left: 2, Right: 2}: &PairAdjust{First: first, Second: second}}
	}
	ll := LookupList{{Meta: meta, Subtables: []Subtable{st}}}
	seq := verifSeq(4, 4)
	checkShape(ll, gd, []LookupIndex{0}, seq, "pair resume")
}

// VerifH_C06_nestedfilter: a nested lookup filters glyphs by its own lookup flags and its own mark filtering
// set, not by those of the contextual lookup that invoked it.  Outer rule: glyph 1 followed by glyph 2 (class
// based skipping decides what lies between); nested ligature 1 2 -> 10; both lookups have symbolic flags and
// mark filtering sets; glyphs 4 and 5 are marks belonging to different mark glyph sets.
func VerifH_C06_nestedfilter() {
	flagsOf := func(tag string) *LookupMetaInfo {
		f := LookupFlags(verifU16(tag + ".flags"))
		verifAssume(f&^(IgnoreMarks|UseMarkFilteringSet) == 0)
		s := verifU16(tag + ".set")
		verifAssume(s <= 1)
		return &LookupMetaInfo{LookupFlags: f, MarkFilteringSet: s}
	}
	outerMeta, innerMeta := flagsOf("outer"), flagsOf("inner")
	outerMeta.LookupType, innerMeta.LookupType = 5, 4
	gd := &gdef.Table{GlyphClass: classdef.Table{1: 1, 2: 1, 3: 1, 4: 3, 5: 3}, MarkGlyphSets: []coverage.Set{{4: true}, {5: true}}}
	outer := &SeqContext1{Cov: coverage.Table{1: 0}, Rules: [][]*SeqRule{{{Input: []glyph.ID{2}, Actions: []SeqLookup{{SequenceIndex: 0, LookupListIndex: 1}}}}}}
	inner := &Gsub4_1{Cov: coverage.Table{1: 0}, Repl: [][]Ligature{{{In: []glyph.ID{2}, Out: 10}}}}
	ll := LookupList{{Meta: outerMeta, Subtables: []Subtable{outer}}, {Meta: innerMeta, Subtables: []Subtable{inner}}}
	seq := make([]glyph.Info, 3)
	for i := range seq {
		g := glyph.ID(verifU16("gid"))
		verifAssume(g == 1 || g == 2 || g == 4 || g == 5)
		seq[i] = glyph.Info{GID: g, Text: []rune{rune('a' + i)}, Advance: 100}
	}
	checkShape(ll, gd, []LookupIndex{0}, seq, "nested filter")
}
