//go:build verif

package gtab

import (
	"golang.org/x/text/language"

	"seehuhn.de/go/postscript/funit"
	"seehuhn.de/go/sfnt/glyph"
	"seehuhn.de/go/sfnt/opentype/anchor"
	"seehuhn.de/go/sfnt/opentype/classdef"
	"seehuhn.de/go/sfnt/opentype/coverage"
	"seehuhn.de/go/sfnt/opentype/markarray"
)

// checkSubtable: encodeLen() == len(encode()) and read(encode(x)) == x.
func checkSubtable(x Subtable, lookupType uint16, gpos bool) {
	enc := x.encode()
	verifAssert(x.encodeLen() == len(enc), "declared size equals emitted size")
	meta := &LookupMetaInfo{LookupType: lookupType}
	var got Subtable
	var err error
	if gpos {
		got, err = readGposSubtable(verifParser(enc), 0, meta)
	} else {
		got, err = readGsubSubtable(verifParser(enc), 0, meta)
	}
	verifAssert(err == nil, "own subtable accepted")
	if err != nil {
		return
	}
	verifReach("read")
	verifAssert(verifSame(got, x), "subtable round-trips")
}

// checkSubtableNF: for class based contexts nil and empty rule sets are the same after a round trip:
// encode/decode must be a fixed point, keep every non-empty rule set, and the declared size must be right.
func checkSubtableNF(x Subtable, lookupType uint16) {
	enc := x.encode()
	verifAssert(x.encodeLen() == len(enc), "declared size equals emitted size")
	meta := &LookupMetaInfo{LookupType: lookupType}
	got, err := readGsubSubtable(verifParser(enc), 0, meta)
	verifAssert(err == nil, "own subtable accepted")
	if err != nil {
		return
	}
	verifReach("read")
	// compare rule sets one by one (nil == empty)
	switch a := x.(type) {
	case *SeqContext2:
		b, ok := got.(*SeqContext2)
		verifAssert(ok && verifSame(a.Cov, b.Cov) && verifSame(a.Input, b.Input), "coverage and classes survive")
		if ok {
			for i := range a.Rules {
				if i >= a.Input.NumClasses() {
					break // rule sets for classes no glyph has can never apply; the reader drops them
				}
				if len(a.Rules[i]) > 0 {
					verifAssert(i < len(b.Rules) && verifSame(a.Rules[i], b.Rules[i]), "rule set survives under its class")
				} else {
					verifAssert(i >= len(b.Rules) || len(b.Rules[i]) == 0, "empty rule set stays empty")
				}
			}
		}
	case *ChainedSeqContext2:
		b, ok := got.(*ChainedSeqContext2)
		verifAssert(ok && verifSame(a.Cov, b.Cov) && verifSame(a.Input, b.Input) && verifSame(a.Backtrack, b.Backtrack) && verifSame(a.Lookahead, b.Lookahead), "coverage and classes survive")
		if ok {
			for i := range a.Rules {
				if i >= a.Input.NumClasses() {
					break // rule sets for classes no glyph has can never apply; the reader drops them
				}
				if len(a.Rules[i]) > 0 {
					verifAssert(i < len(b.Rules) && verifSame(a.Rules[i], b.Rules[i]), "rule set survives under its class")
				} else {
					verifAssert(i >= len(b.Rules) || len(b.Rules[i]) == 0, "empty rule set stays empty")
				}
			}
		}
	}
	e2 := got.encode()
	verifAssert(len(e2) == got.encodeLen(), "declared size of the decoded subtable")
}

// VerifH_C08_gsub: GSUB subtables of types 1.1, 1.2, 2.1, 3.1, 4.1 with symbolic content.
func VerifH_C08_gsub() {
	n := 1 + verifChoose("ncov", 2)
	ids := verifGIDs("cov", n)
	switch verifChoose("type", 5) {
	case 0:
		set := coverage.Set{}
		for _, g := range ids {
			set[g] = true
		}
		checkSubtable(&Gsub1_1{Cov: set, Delta: glyph.ID(verifU16("delta"))}, 1, false)
	case 1:
		checkSubtable(&Gsub1_2{Cov: verifCov(ids), SubstituteGlyphIDs: verifGIDList("sub", n)}, 1, false)
	case 2:
		x := &Gsub2_1{Cov: verifCov(ids)}
		for range ids {
			x.Repl = append(x.Repl, verifGIDList("repl", 1+verifChoose("nrepl", 2)))
		}
		checkSubtable(x, 2, false)
	case 3:
		x := &Gsub3_1{Cov: verifCov(ids)}
		for range ids {
			x.Alternates = append(x.Alternates, verifGIDList("alt", 1+verifChoose("nalt", 2)))
		}
		checkSubtable(x, 3, false)
	default:
		x := &Gsub4_1{Cov: verifCov(ids)}
		for range ids {
			var ligs []Ligature
			nl := 1 + verifChoose("nlig", 2)
			for j := 0; j < nl; j++ {
				ligs = append(ligs, Ligature{In: verifGIDList("in", 1+verifChoose("nin", 2)), Out: glyph.ID(verifU16("out"))})
			}
			x.Repl = append(x.Repl, ligs)
		}
		checkSubtable(x, 4, false)
	}
}

// VerifH_C08_gpos: GPOS 1.1, 1.2, 2.1 with symbolic value records.
func VerifH_C08_gpos() {
	n := 1 + verifChoose("ncov", 2)
	ids := verifGIDs("cov", n)
	switch verifChoose("type", 3) {
	case 0:
		vr := verifValueRecord("adj")
		if vr == nil {
			vr = &GposValueRecord{}
		}
		checkSubtable(&Gpos1_1{Cov: verifCov(ids), Adjust: vr}, 1, true)
	case 1:
		x := &Gpos1_2{Cov: verifCov(ids)}
		for range ids {
			vr := verifValueRecord("adj")
			if vr == nil {
				vr = &GposValueRecord{}
			}
			x.Adjust = append(x.Adjust, vr)
		}
		checkSubtable(x, 1, true)
	default:
		x := Gpos2_1{}
		// the binary format has one value format per subtable for each of the two records: whether the
		// second record is present is a property of the subtable, not of the pair (value domain)
		haveSecond := verifChoose("second", 2) == 1
		for _, g := range ids {
			first := &GposValueRecord{XPlacement: funit.Int16(verifI16("first.xp")), YPlacement: funit.Int16(verifI16("first.yp")), XAdvance: funit.Int16(verifI16("first.xa"))}
			pa := &PairAdjust{First: first}
			if haveSecond {
				pa.Second = &GposValueRecord{XPlacement: funit.Int16(verifI16("second.xp")), XAdvance: funit.Int16(verifI16("second.xa"))}
			}
			x[glyph.Pair{Left: g, Right: glyph.ID(verifU16("right"))}] = pa
		}
		checkSubtable(x, 2, true)
	}
}

// VerifH_C08_context: contextual subtables (formats 1 and 3, plain and chained) with symbolic content.
func VerifH_C08_context() {
	kind := verifChoose("type", 6)
	big := verifParam("ctxbig", 0)
	ids := verifGIDs("cov", 1+verifChoose("ncov", 1+big))
	actions := func() []SeqLookup {
		var a []SeqLookup
		for i := verifChoose("nact", 2+big); i > 0; i-- {
			a = append(a, SeqLookup{SequenceIndex: verifU16("seqidx"), LookupListIndex: LookupIndex(verifU16("lookup"))})
		}
		return a
	}
	switch kind {
	case 0:
		x := &SeqContext1{Cov: verifCov(ids)}
		for range ids {
			var rules []*SeqRule
			for j := 1 + verifChoose("nrules", 1+big); j > 0; j-- {
				rules = append(rules, &SeqRule{Input: verifGIDList("in", verifChoose("nin", 2+big)), Actions: actions()})
			}
			x.Rules = append(x.Rules, rules)
		}
		checkSubtable(x, 5, false)
	case 1:
		x := &SeqContext3{Actions: actions()}
		for j := 1 + verifChoose("ninput", 2); j > 0; j-- {
			x.Input = append(x.Input, verifCov(verifGIDs("ic", 1+verifChoose("nic", 2))).ToSet())
		}
		checkSubtable(x, 5, false)
	case 2:
		x := &ChainedSeqContext1{Cov: verifCov(ids)}
		for range ids {
			var rules []*ChainedSeqRule
			for j := 1 + verifChoose("nrules", 1+big); j > 0; j-- {
				rules = append(rules, &ChainedSeqRule{Backtrack: verifGIDList("bt", verifChoose("nbt", 2)), Input: verifGIDList("in", verifChoose("nin", 2)),
					Lookahead: verifGIDList("la", verifChoose("nla", 2)), Actions: actions()})
			}
			x.Rules = append(x.Rules, rules)
		}
		checkSubtable(x, 6, false)
	case 4:
		// class based: rule sets per class of the first glyph; some classes have an empty (non-nil) or nil rule set
		x := &SeqContext2{Cov: verifCov(ids), Input: classdef.Table{ids[0]: 1}}
		if len(ids) > 1 {
			x.Input[ids[1]] = 2
		}
		for cls := 0; cls < 3; cls++ {
			switch verifChoose("ruleset", 3) {
			case 0:
				x.Rules = append(x.Rules, nil)
			case 1:
				x.Rules = append(x.Rules, []*ClassSeqRule{})
			default:
				x.Rules = append(x.Rules, []*ClassSeqRule{{Input: []uint16{verifU16("cls")}, Actions: actions()}})
			}
		}
		checkSubtableNF(x, 5)
	case 5:
		x := &ChainedSeqContext2{Cov: verifCov(ids), Backtrack: classdef.Table{ids[0]: 1}, Input: classdef.Table{ids[0]: 1}, Lookahead: classdef.Table{ids[0]: 2}}
		for cls := 0; cls < 2; cls++ {
			switch verifChoose("ruleset", 3) {
			case 0:
				x.Rules = append(x.Rules, nil)
			case 1:
				x.Rules = append(x.Rules, []*ChainedClassSeqRule{})
			default:
				x.Rules = append(x.Rules, []*ChainedClassSeqRule{{Backtrack: []uint16{verifU16("b")}, Input: []uint16{verifU16("i")}, Lookahead: []uint16{verifU16("l")}, Actions: actions()}})
			}
		}
		checkSubtableNF(x, 6)
	default:
		x := &ChainedSeqContext3{Actions: actions()}
		for j := verifChoose("nbt", 2); j > 0; j-- {
			x.Backtrack = append(x.Backtrack, verifCov(verifGIDs("bc", 1)).ToSet())
		}
		for j := 1 + verifChoose("ninput", 2); j > 0; j-- {
			x.Input = append(x.Input, verifCov(verifGIDs("ic", 1+verifChoose("nic", 2))).ToSet())
		}
		for j := verifChoose("nla", 2); j > 0; j-- {
			x.Lookahead = append(x.Lookahead, verifCov(verifGIDs("lc", 1)).ToSet())
		}
		checkSubtable(x, 6, false)
	}
}

// VerifH_C08_lookuplist: a lookup list with symbolic flags / mark filtering sets survives encode/read.
func VerifH_C08_lookuplist() {
	n := 1 + verifChoose("nlookups", verifParam("maxlookups", 2)) // a nil list is not written at all
	var ll LookupList
	for i := 0; i < n; i++ {
		flags := LookupFlags(verifU16("flags"))
		meta := &LookupMetaInfo{LookupType: 1, LookupFlags: flags}
		if flags&UseMarkFilteringSet != 0 {
			meta.MarkFilteringSet = verifU16("markset")
		}
		lt := &LookupTable{Meta: meta}
		for j := 1 + verifChoose("nsub", 2); j > 0; j-- {
			lt.Subtables = append(lt.Subtables, &Gsub1_1{Cov: coverage.Set{glyph.ID(verifU16("g")): true}, Delta: glyph.ID(verifU16("delta"))})
		}
		ll = append(ll, lt)
	}
	enc := ll.encode()
	got, err := readLookupList(verifParser(enc), 0, readGsubSubtable)
	verifAssert(err == nil, "own lookup list accepted")
	if err != nil {
		return
	}
	verifReach("read")
	verifAssert(len(got) == n, "lookup count")
	for i := range ll {
		verifAssert(*got[i].Meta == *ll[i].Meta, "lookup type, flags and mark filtering set survive")
		verifAssert(verifSame(got[i].Subtables, ll[i].Subtables), "subtables survive")
	}
}

// VerifH_C08_gpos2: round trips of the remaining implemented GPOS subtables: class pair adjustment (2.2),
// cursive attachment (3.1), mark-to-base (4.1) and mark-to-mark (6.1) with symbolic glyph ids, classes,
// value records and anchors.
func VerifH_C08_gpos2() {
	kind := verifChoose("type", 6)
	an := func(tag string) anchor.Table {
		return anchor.Table{X: funit.Int16(verifI16(tag + ".x")), Y: funit.Int16(verifI16(tag + ".y"))}
	}
	// anchors inside a base / mark2 array: an all-zero anchor means "no anchor" (offset 0 in the file)
	ids := verifGIDs("cov", 2)
	ids2 := verifGIDs("cov2", 2)
	switch kind {
	case 0:
		haveSecond := verifChoose("second", 2) == 1
		pa := func(tag string) *PairAdjust {
			p := &PairAdjust{First: &GposValueRecord{XPlacement: funit.Int16(verifI16(tag + ".xp")), XAdvance: funit.Int16(verifI16(tag + ".xa"))}}
			if haveSecond {
				p.Second = &GposValueRecord{YPlacement: funit.Int16(verifI16(tag + ".yp2"))}
			}
			return p
		}
		x := &Gpos2_2{Cov: coverage.Set{ids[0]: true, ids[1]: true}, Class1: classdef.Table{ids[1]: 1}, Class2: classdef.Table{ids2[0]: 1},
			Adjust: [][]*PairAdjust{{pa("a00"), pa("a01")}, {pa("a10"), pa("a11")}}}
		checkSubtable(x, 2, true)
	case 1:
		x := &Gpos3_1{Cov: verifCov(ids), Records: []EntryExitRecord{{Entry: an("e0"), Exit: an("x0")}, {Entry: an("e1"), Exit: an("x1")}}}
		checkSubtable(x, 3, true)
	case 2:
		c0, c1 := verifU16("class"), verifU16("class")
		verifAssume(c0 <= 1 && c1 <= 1)
		x := &Gpos4_1{MarkCov: verifCov(ids), BaseCov: verifCov(ids2),
			MarkArray: []markarray.Record{{Class: c0, Table: an("m0")}, {Class: c1, Table: an("m1")}},
			BaseArray: [][]anchor.Table{{an("b00"), an("b01")}, {an("b10"), an("b11")}}}
		checkSubtable(x, 4, true)
	case 4, 5:
		// large tables: 300 marks in non-contiguous glyph ids, so that the coverage tables and the mark array
		// do not fit into the parser's 1024-byte window (the reader must not rely on buffered bytes surviving)
		const n = 300
		cov := coverage.Table{}
		var marks []markarray.Record
		for i := 0; i < n; i++ {
			cov[glyph.ID(10+2*i)] = i
			marks = append(marks, markarray.Record{Class: uint16(i % 2), Table: anchor.Table{X: funit.Int16(i), Y: funit.Int16(-i)}})
		}
		marks[0].Table, marks[n-1].Table = an("m0"), an("mlast")
		rows := [][]anchor.Table{{an("b00"), an("b01")}, {an("b10"), an("b11")}}
		if kind == 4 {
			checkSubtable(&Gpos4_1{MarkCov: cov, BaseCov: verifCov(ids2), MarkArray: marks, BaseArray: rows}, 4, true)
		} else {
			checkSubtable(&Gpos6_1{Mark1Cov: cov, Mark2Cov: verifCov(ids2), Mark1Array: marks, Mark2Array: rows}, 6, true)
		}
	default:
		c0, c1 := verifU16("class"), verifU16("class")
		verifAssume(c0 <= 1 && c1 <= 1)
		x := &Gpos6_1{Mark1Cov: verifCov(ids), Mark2Cov: verifCov(ids2),
			Mark1Array: []markarray.Record{{Class: c0, Table: an("m0")}, {Class: c1, Table: an("m1")}},
			Mark2Array: [][]anchor.Table{{an("b00"), an("b01")}, {an("b10"), an("b11")}}}
		checkSubtable(x, 6, true)
	}
}

// VerifH_C08_scriptlist: script lists with a solver-chosen subset of language systems (default and
// language-specific entries of several scripts, in every combination) and symbolic required / optional
// feature indices survive encode -> read unchanged.
func VerifH_C08_scriptlist() {
	tags := []language.Tag{ // tags in the normal form the reader produces
		language.MustParse("und-Zzzz-x-dflt"),    // DFLT, default language system
		language.MustParse("und-Cyrl-x-cyrl"),    // cyrl, default language system
		language.MustParse("de-Latn-x-latn-deu"), // latn / DEU
		language.MustParse("tr-Latn-x-latn-trk"), // latn / TRK
		language.MustParse("und-Latn-x-latn"),    // latn, default language system
	}
	info := ScriptListInfo{}
	for _, t := range tags {
		if !verifBool("present") {
			continue
		}
		ft := &Features{Required: FeatureIndex(verifU16("required"))}
		for i := verifChoose("optional", 2); i > 0; i-- {
			f1, f2 := FeatureIndex(verifU16("feature")), FeatureIndex(verifU16("feature"))
			verifAssume(f1 != 0xFFFF && f2 != 0xFFFF) // 0xFFFF is "no feature": not a member of a feature index list
			ft.Optional = append(ft.Optional, f1, f2)
		}
		info[t] = ft
	}
	verifAssume(len(info) > 0)
	enc := info.encode()
	got, err := readScriptList(verifParser(enc), 0)
	verifAssert(err == nil, "own script list accepted")
	if err != nil {
		return
	}
	verifReach("read")
	verifAssert(len(got) == len(info), "same language systems")
	for t, ft := range info {
		g := got[t]
		verifAssert(g != nil && g.Required == ft.Required && verifSame(g.Optional, ft.Optional), "features of every language system survive")
	}
}

// VerifH_C08_big: subtables whose coverage tables / arrays are larger than the parser's 1024-byte window
// (600 glyphs with non-contiguous ids), a few values symbolic: the round trip must not depend on where the
// window boundaries fall (bytes returned by the parser are only valid until its next call).
func VerifH_C08_big() {
	const n = 600
	kind := verifChoose("kind", 11)
	cov := coverage.Table{}
	set := coverage.Set{}
	var gids []glyph.ID
	for i := 0; i < n; i++ {
		g := glyph.ID(7 + 3*i)
		cov[g] = i
		set[g] = true
		gids = append(gids, g)
	}
	sym := glyph.ID(verifU16("gid"))
	vr := func(i int) *GposValueRecord { return &GposValueRecord{XAdvance: funit.Int16(i - 300)} }
	act := []SeqLookup{{SequenceIndex: verifU16("seqidx"), LookupListIndex: LookupIndex(verifU16("lookup"))}}
	switch kind {
	case 0:
		x := &Gsub1_2{Cov: cov, SubstituteGlyphIDs: append([]glyph.ID{}, gids...)}
		x.SubstituteGlyphIDs[n-1] = sym
		checkSubtable(x, 1, false)
	case 1:
		x := &Gsub2_1{Cov: cov}
		for i := 0; i < n; i++ {
			x.Repl = append(x.Repl, []glyph.ID{glyph.ID(i), sym})
		}
		checkSubtable(x, 2, false)
	case 2:
		x := &Gsub3_1{Cov: cov}
		for i := 0; i < n; i++ {
			x.Alternates = append(x.Alternates, []glyph.ID{glyph.ID(i), glyph.ID(i + 1)})
		}
		x.Alternates[n-1][1] = sym
		checkSubtable(x, 3, false)
	case 3:
		x := &Gsub4_1{Cov: cov}
		for i := 0; i < n; i++ {
			x.Repl = append(x.Repl, []Ligature{{In: []glyph.ID{glyph.ID(i)}, Out: glyph.ID(i + 5)}})
		}
		x.Repl[n-1][0].Out = sym
		checkSubtable(x, 4, false)
	case 4:
		x := &Gpos1_2{Cov: cov}
		for i := 0; i < n; i++ {
			x.Adjust = append(x.Adjust, vr(i))
		}
		x.Adjust[n-1] = &GposValueRecord{XAdvance: funit.Int16(verifI16("adv"))}
		checkSubtable(x, 1, true)
	case 5:
		x := Gpos2_1{}
		for i := 0; i < n; i++ {
			x[glyph.Pair{Left: gids[i%40], Right: gids[i]}] = &PairAdjust{First: vr(i)}
		}
		x[glyph.Pair{Left: gids[0], Right: sym}] = &PairAdjust{First: &GposValueRecord{XAdvance: funit.Int16(verifI16("adv"))}}
		checkSubtable(x, 2, true)
	case 6:
		c1, c2 := classdef.Table{}, classdef.Table{}
		for i, g := range gids {
			c1[g] = uint16(1 + i%2)
			c2[g] = uint16(1 + i%3)
		}
		adj := make([][]*PairAdjust, 3)
		for i := range adj {
			for j := 0; j < 4; j++ {
				adj[i] = append(adj[i], &PairAdjust{First: vr(10*i + j)})
			}
		}
		adj[2][3] = &PairAdjust{First: &GposValueRecord{XAdvance: funit.Int16(verifI16("adv"))}}
		checkSubtable(&Gpos2_2{Cov: set, Class1: c1, Class2: c2, Adjust: adj}, 2, true)
	case 7:
		x := &Gpos3_1{Cov: cov}
		for i := 0; i < n; i++ {
			x.Records = append(x.Records, EntryExitRecord{Entry: anchor.Table{X: funit.Int16(i + 1), Y: 1}, Exit: anchor.Table{X: 2, Y: funit.Int16(i + 1)}})
		}
		x.Records[n-1].Exit = anchor.Table{X: funit.Int16(verifI16("ax")), Y: funit.Int16(verifI16("ay"))}
		checkSubtable(x, 3, true)
	case 8:
		x := &SeqContext1{Cov: cov}
		for i := 0; i < n; i++ {
			x.Rules = append(x.Rules, []*SeqRule{{Input: []glyph.ID{glyph.ID(i)}, Actions: []SeqLookup{{SequenceIndex: 1, LookupListIndex: LookupIndex(i)}}}})
		}
		x.Rules[n-1][0].Actions = act
		checkSubtable(x, 5, false)
	case 9:
		checkSubtable(&SeqContext3{Input: []coverage.Set{set, {sym: true}, set}, Actions: act}, 5, false)
	default:
		checkSubtable(&ChainedSeqContext3{Backtrack: []coverage.Set{set}, Input: []coverage.Set{{sym: true}}, Lookahead: []coverage.Set{set, set}, Actions: act}, 6, false)
	}
}
