//go:build verif

package gtab

import (
	"bytes"

	"seehuhn.de/go/postscript/funit"
	"seehuhn.de/go/sfnt/glyph"
	"seehuhn.de/go/sfnt/opentype/coverage"
	"seehuhn.de/go/sfnt/parser"
)

type verifRS struct{ *bytes.Reader }

func (r verifRS) Size() int64 { return r.Reader.Size() }

func verifParser(b []byte) *parser.Parser { return parser.New(verifRS{bytes.NewReader(b)}) }

// verifGIDs returns n symbolic glyph ids in strictly increasing order.
func verifGIDs(tag string, n int) []glyph.ID {
	var ids []glyph.ID
	for i := 0; i < n; i++ {
		g := glyph.ID(verifU16(tag))
		if i > 0 {
			verifAssume(g > ids[i-1])
		}
		ids = append(ids, g)
	}
	return ids
}

func verifCov(ids []glyph.ID) coverage.Table {
	t := coverage.Table{}
	for i, g := range ids {
		t[g] = i
	}
	return t
}

func verifGIDList(tag string, n int) []glyph.ID {
	res := make([]glyph.ID, n)
	for i := range res {
		res[i] = glyph.ID(verifU16(tag))
	}
	return res
}

func verifValueRecord(tag string) *GposValueRecord {
	if verifChoose(tag+".nil", 2) == 0 {
		return nil
	}
	return &GposValueRecord{XPlacement: funit.Int16(verifI16(tag + ".xp")), YPlacement: funit.Int16(verifI16(tag + ".yp")), XAdvance: funit.Int16(verifI16(tag + ".xa"))}
}
