//go:build verif

package classdef

import (
	"bytes"

	"seehuhn.de/go/sfnt/glyph"
	"seehuhn.de/go/sfnt/parser"
)

type verifRS struct{ *bytes.Reader }

func (r verifRS) Size() int64 { return r.Reader.Size() }

func verifParser(b []byte) *parser.Parser { return parser.New(verifRS{bytes.NewReader(b)}) }

// VerifH_C08_classdef: Read(Append(t)) == t, AppendLen equals the emitted length, smaller format chosen.
func VerifH_C08_classdef() {
	n := verifChoose("n", verifParam("maxglyphs", 3)+1)
	t := Table{}
	base := glyph.ID(verifU16("base"))
	verifAssume(base <= 0xFFFF-8)
	var ids []glyph.ID
	for i := 0; i < n; i++ {
		// glyphs inside a window of 8 ids (the encoder scans the whole id span)
		d := glyph.ID(verifU8("delta"))
		verifAssume(d < 8)
		g := base + d
		if i > 0 {
			verifAssume(g > ids[i-1])
		}
		ids = append(ids, g)
		c := verifU16("class")
		verifAssume(c != 0)
		t[g] = c
	}
	enc := t.Append(nil)
	verifAssert(t.AppendLen() == len(enc), "AppendLen equals the emitted length")
	if n > 0 {
		// reference sizes (OpenType "Class Definition Table")
		span := int(ids[n-1]) - int(ids[0]) + 1
		segs := 0
		for i := range ids {
			if i == 0 || ids[i] != ids[i-1]+1 || t[ids[i]] != t[ids[i-1]] {
				segs++
			}
		}
		l1, l2 := 6+2*span, 4+6*segs
		want := l1
		if l2 < l1 {
			want = l2
			verifReach("format2")
		} else {
			verifReach("format1")
		}
		verifAssert(len(enc) == want, "the smaller class definition format is chosen")
	}
	// Append must append
	pre := []byte{1, 2, 3}
	e2 := t.Append(pre)
	verifAssert(len(e2) == 3+len(enc) && e2[0] == 1 && e2[2] == 3 && verifSame(e2[3:], enc), "Append keeps the prefix")
	got, err := Read(verifParser(enc), 0)
	verifAssert(err == nil, "own class definition accepted")
	if err != nil {
		return
	}
	verifReach("read")
	verifAssert(verifSame(got, t), "class definition round trip")
	q := glyph.ID(verifU16("query"))
	verifAssert(got[q] == t[q], "class of every glyph id")
}

// VerifH_C08_classdef_bytes: arbitrary bytes: total and fixed point.
func VerifH_C08_classdef_bytes() {
	n := 4 + verifChoose("len", verifParam("maxlen", 12)+1)
	in := verifBytes("in", n)
	if in[1] == 1 && n >= 6 {
		verifAssume(in[4] == 0 && in[5] <= 3)
	}
	if in[1] == 2 {
		verifAssume(in[2] == 0 && in[3] <= 2)
		for i := 4; i+3 < n; i += 6 {
			a, b := int(in[i])<<8|int(in[i+1]), int(in[i+2])<<8|int(in[i+3])
			verifAssume(b-a <= 2)
		}
	}
	t, err := Read(verifParser(in), 0)
	if err != nil {
		return
	}
	verifReach("accepted")
	e2 := t.Append(nil)
	verifAssert(len(e2) == t.AppendLen(), "AppendLen consistent")
	t2, err := Read(verifParser(e2), 0)
	verifAssert(err == nil && verifSame(t2, t), "decode/encode/decode fixed point")
	t.NumClasses()
}

// VerifH_C08_classdef_runs: class definitions made of 2..3 runs of consecutive glyphs with solver-chosen
// lengths, gaps (zero gap: touching runs) and classes: long runs make format 2 the smaller encoding.
func VerifH_C08_classdef_runs() {
	nruns := 2 + verifChoose("runs", 2)
	t := Table{}
	g := []int{0, 100}[verifChoose("start", 2)] // concrete start: the keys of the table stay concrete
	count := 0
	segs := 0
	first, last := -1, -1
	prevEnd, prevClass := -2, uint16(0)
	for r := 0; r < nruns; r++ {
		gap := int(verifU8("gap"))
		ln := int(verifU8("len"))
		verifAssume(gap <= 2 && ln >= 1 && ln <= 4)
		if r > 0 {
			g += gap
		}
		c := verifU16("class")
		verifAssume(c >= 1 && c <= 3)
		if !(g == prevEnd+1 && c == prevClass) {
			segs++
		}
		for i := 0; i < ln; i++ {
			t[glyph.ID(g)] = c
			if first < 0 {
				first = g
			}
			last = g
			g++
			count++
		}
		prevEnd, prevClass = g-1, c
	}
	enc := t.Append(nil)
	verifAssert(t.AppendLen() == len(enc), "AppendLen equals the emitted length")
	l1, l2 := 6+2*(last-first+1), 4+6*segs
	want := l1
	if l2 < l1 {
		want = l2
		verifReach("format2")
	}
	verifAssert(len(enc) == want, "the smaller class definition format is chosen")
	got, err := Read(verifParser(enc), 0)
	verifAssert(err == nil, "own class definition accepted")
	if err != nil {
		return
	}
	verifReach("read")
	verifAssert(len(got) == count && verifSame(got, t), "class definition round trip")
}
