//go:build verif

package coverage

import (
	"bytes"

	"seehuhn.de/go/sfnt/glyph"
	"seehuhn.de/go/sfnt/parser"
)

type verifRS struct{ *bytes.Reader }

func (r verifRS) Size() int64 { return r.Reader.Size() }

func verifParser(b []byte) *parser.Parser { return parser.New(verifRS{bytes.NewReader(b)}) }

// verifTable builds a coverage table of n glyphs with symbolic, strictly increasing glyph ids.
func verifTable(n int) (Table, []glyph.ID) {
	t := Table{}
	var ids []glyph.ID
	for i := 0; i < n; i++ {
		g := glyph.ID(verifU16("gid"))
		if i > 0 {
			verifAssume(g > ids[i-1])
		}
		ids = append(ids, g)
	}
	for i, g := range ids {
		t[g] = i
	}
	return t, ids
}

// VerifH_C08_coverage: Read(Encode(t)) == t; EncodeLen is the emitted length; the smaller format is chosen;
// coverage indices are 0..n-1 in increasing glyph order.
func VerifH_C08_coverage() {
	n := verifChoose("n", verifParam("maxglyphs", 4)+1)
	t, ids := verifTable(n)
	enc := t.Encode()
	verifAssert(t.EncodeLen() == len(enc), "EncodeLen equals the emitted length")
	ranges := 0
	for i := range ids {
		if i == 0 || ids[i] != ids[i-1]+1 {
			ranges++
		}
	}
	l1, l2 := 4+2*n, 4+6*ranges
	want := l1
	if l2 < l1 {
		want = l2
		verifReach("format2")
	}
	verifAssert(len(enc) == want, "the smaller coverage format is chosen")
	got, err := Read(verifParser(enc), 0)
	verifAssert(err == nil, "own coverage table accepted")
	if err != nil {
		return
	}
	verifReach("read")
	verifAssert(len(got) == n, "glyph count")
	for i, g := range ids {
		idx, ok := got[g]
		verifAssert(ok && idx == i, "coverage index i for the i-th smallest glyph")
	}
	set, err := ReadSet(verifParser(enc), 0)
	verifAssert(err == nil && len(set) == n, "ReadSet agrees")
	q := glyph.ID(verifU16("query"))
	verifAssert(set[q] == t.Contains(q), "membership of every glyph id")
	// Set -> Table gives the same table
	verifAssert(verifSame(t.ToSet().ToTable(), t), "Set.ToTable inverts Table.ToSet")
}

// VerifH_C08_coverage_bytes: arbitrary coverage bytes: total; accepted tables re-encode to themselves.
func VerifH_C08_coverage_bytes() {
	n := 4 + verifChoose("len", verifParam("maxlen", 12)+1)
	in := verifBytes("in", n)
	verifAssume(in[2] == 0 && in[3] <= 2)
	if in[1] == 2 {
		// ranges are materialised glyph by glyph: keep them short
		for i := 4; i+3 < n; i += 6 {
			a, b := int(in[i])<<8|int(in[i+1]), int(in[i+2])<<8|int(in[i+3])
			verifAssume(b-a <= 2)
		}
	}
	verifUnwind(400) // with ranges of at most 3 glyphs no loop of a correct reader comes near this bound
	t, err := Read(verifParser(in), 0)
	if err == nil {
		verifReach("accepted")
		e2 := t.Encode()
		t2, err := Read(verifParser(e2), 0)
		verifAssert(err == nil && verifSame(t2, t), "decode/encode/decode fixed point")
	}
	ReadSet(verifParser(in), 0)
}
