//go:build verif

package gdef

import (
	"bytes"

	"seehuhn.de/go/sfnt/glyph"
	"seehuhn.de/go/sfnt/opentype/classdef"
	"seehuhn.de/go/sfnt/opentype/coverage"
)

type verifRS struct{ *bytes.Reader }

func (r verifRS) Size() int64 { return r.Reader.Size() }

// VerifH_C08_gdef: a GDEF table with class tables and mark glyph sets survives encode/read.
func VerifH_C08_gdef() {
	t := &Table{}
	g := func(tag string) glyph.ID { return glyph.ID(verifU16(tag)) }
	if verifChoose("glyphclass", 2) == 1 {
		a := g("gc.a")
		c := verifU16("gc.class")
		verifAssume(c >= 1 && c <= 4)
		t.GlyphClass = classdef.Table{a: c}
		if verifChoose("gc.second", 2) == 1 {
			b := g("gc.b")
			verifAssume(b > a && b-a < 6)
			t.GlyphClass[b] = 3
		}
	}
	if verifChoose("attach", 2) == 1 {
		t.MarkAttachClass = classdef.Table{g("ma.a"): 1 + verifU16("ma.class")%3}
	}
	ns := verifChoose("marksets", 3)
	if ns > 0 {
		for i := 0; i < ns; i++ {
			set := coverage.Set{}
			for k := verifChoose("setsize", 3); k > 0; k-- {
				set[g("ms")] = true
			}
			t.MarkGlyphSets = append(t.MarkGlyphSets, set)
		}
	}
	enc := t.Encode()
	got, err := Read(verifRS{bytes.NewReader(enc)})
	verifAssert(err == nil, "own GDEF table accepted")
	if err != nil {
		return
	}
	verifReach("read")
	verifAssert(verifSame(got.GlyphClass, t.GlyphClass), "glyph classes survive")
	verifAssert(verifSame(got.MarkAttachClass, t.MarkAttachClass), "mark attachment classes survive")
	verifAssert(len(got.MarkGlyphSets) == len(t.MarkGlyphSets), "number of mark glyph sets")
	for i := range t.MarkGlyphSets {
		if i < len(got.MarkGlyphSets) {
			verifAssert(verifSame(got.MarkGlyphSets[i], t.MarkGlyphSets[i]), "mark glyph set survives")
		}
	}
	q := g("query")
	verifAssert(got.IsMark(q) == t.IsMark(q), "IsMark of every glyph")
}

// VerifH_C02_gdef: gdef.Read on arbitrary bytes: total.
func VerifH_C02_gdef() {
	n := 12 + 2*verifChoose("words", verifParam("maxwords", 8)+1)
	in := verifBytes("in", n)
	verifAssume(in[0] == 0 && in[1] == 1 && in[2] == 0 && (in[3] == 0 || in[3] == 2 || in[3] == 3))
	for i := 4; i+1 < n; i += 2 {
		// offsets and counts are small numbers
		verifAssume(in[i] == 0 && int(in[i+1]) <= n)
	}
	t, err := Read(verifRS{bytes.NewReader(in)})
	if err != nil {
		return
	}
	verifReach("accepted")
	t.IsMark(glyph.ID(verifU16("g")))
	enc := t.Encode()
	_, err = Read(verifRS{bytes.NewReader(enc)})
	verifAssert(err == nil, "accepted GDEF tables re-encode")
}
