//go:build verif

package header

import (
	"bytes"
)

func refU16(b []byte, off int) int { return int(b[off])<<8 | int(b[off+1]) }
func refU32(b []byte, off int) uint32 {
	return uint32(b[off])<<24 | uint32(b[off+1])<<16 | uint32(b[off+2])<<8 | uint32(b[off+3])
}

// refChecksum: OpenType "Calculating Checksums": sum of big-endian uint32 words of the zero-padded data.
func refChecksum(data []byte) uint32 {
	var sum uint32
	for i := 0; i < len(data); i += 4 {
		var w uint32
		for j := 0; j < 4; j++ {
			w <<= 8
			if i+j < len(data) {
				w |= uint32(data[i+j])
			}
		}
		sum += w
	}
	return sum
}

type refEntry struct {
	tag            string
	off, length    int
	checksum       uint32
}

// refValidate checks the container structure of an sfnt file against the OpenType specification
// ("Organization of an OpenType Font") and returns the directory.
func refValidate(file []byte, wantTables int, hasHead bool) []refEntry {
	verifAssert(len(file) >= 12, "file has an offset table")
	if len(file) < 12 {
		return nil
	}
	n := refU16(file, 4)
	verifAssert(n == wantTables, "numTables equals the number of tables written")
	if n != wantTables {
		return nil
	}
	// searchRange = (largest power of two <= numTables) * 16, entrySelector = log2 of that power, rangeShift = numTables*16 - searchRange
	if n > 0 {
		p, lg := 1, 0
		for p*2 <= n {
			p *= 2
			lg++
		}
		verifAssert(refU16(file, 6) == p*16, "searchRange")
		verifAssert(refU16(file, 8) == lg, "entrySelector")
		verifAssert(refU16(file, 10) == n*16-p*16, "rangeShift")
	}
	verifAssert(len(file) >= 12+16*n, "directory inside the file")
	if len(file) < 12+16*n {
		return nil
	}
	var dir []refEntry
	for i := 0; i < n; i++ {
		o := 12 + 16*i
		dir = append(dir, refEntry{tag: string(file[o : o+4]), checksum: refU32(file, o+4), off: int(refU32(file, o+8)), length: int(refU32(file, o+12))})
	}
	for i := 1; i < n; i++ {
		verifAssert(dir[i-1].tag < dir[i].tag, "directory sorted strictly by tag")
	}
	for i, d := range dir {
		verifAssert(d.off%4 == 0, "table starts on a 4-byte boundary")
		verifAssert(d.off >= 12+16*n && d.off+d.length <= len(file), "table lies inside the file, after the directory")
		if d.off < 12+16*n || d.off+d.length > len(file) {
			return nil
		}
		for j := 0; j < i; j++ {
			e := dir[j]
			// padded extents must not overlap
			verifAssert(d.off+(d.length+3)/4*4 <= e.off || e.off+(e.length+3)/4*4 <= d.off || d.length == 0 || e.length == 0, "tables do not overlap")
		}
		// padding bytes are zero and present
		pe := d.off + (d.length+3)/4*4
		verifAssert(pe <= len(file), "padding present")
		if pe <= len(file) {
			for k := d.off + d.length; k < pe; k++ {
				verifAssert(file[k] == 0, "padding is zero")
			}
		}
		body := file[d.off : d.off+d.length]
		if d.tag == "head" && d.length >= 12 {
			// the head checksum is computed with checkSumAdjustment set to 0
			cp := append([]byte{}, body...)
			cp[8], cp[9], cp[10], cp[11] = 0, 0, 0, 0
			body = cp
		}
		verifAssert(d.checksum == refChecksum(body), "directory checksum equals checksum of the table")
	}
	if hasHead {
		verifAssert(len(file)%4 == 0, "file length multiple of 4")
		if len(file)%4 == 0 {
			verifAssert(refChecksum(file) == 0xB1B0AFBA, "whole-file checksum is 0xB1B0AFBA")
		}
	}
	return dir
}

func verifTag(tag string) string {
	switch verifChoose(tag+".kind", 4) {
	case 0:
		return "head"
	case 1:
		return "glyf"
	case 2:
		return "OS/2"
	}
	s := verifStr(tag, 4)
	for i := 0; i < 4; i++ {
		verifAssume(s[i] >= 0x20 && s[i] <= 0x7e)
	}
	// not one of the names with a recommended position (keeps the priority lookup out of the path count)
	_, special := ttTableOrder[s]
	verifAssume(!special)
	return s
}

var verifBodyLens = []int{0, 1, 2, 3, 4, 5, 8}

// VerifH_C03_layout: every file Write produces is a well-formed container; Read returns exactly what was written.
func VerifH_C03_layout() {
	k := 1 + verifChoose("ntables", verifParam("maxtables", 2))
	tables := map[string][]byte{}
	want := map[string][]byte{}
	for i := 0; i < k; i++ {
		name := verifTag("tag")
		var body []byte
		if name == "head" {
			switch verifChoose("headlen", 3) {
			case 0:
				body = verifBytes("head", 54)
			case 1:
				body = verifBytes("head", 12)
			default:
				body = verifBytes("head", verifChoose("shorthead", 12)) // 0..11 bytes: "any length"
				if body == nil {
					body = []byte{}
				}
				verifClass("short head table")
			}
		} else {
			switch li := verifChoose("bodylen", len(verifBodyLens)+1); {
			case li == len(verifBodyLens):
				body = nil // documented: not written
			default:
				body = verifBytes("body", verifBodyLens[li])
				if body == nil {
					body = []byte{}
				}
			}
		}
		tables[name] = body
	}
	nWritten := 0
	hasHead := false
	for name, b := range tables {
		if b != nil {
			nWritten++
			want[name] = append([]byte{}, b...)
			if name == "head" {
				hasHead = len(b) >= 12
			}
		} else {
			verifClass("nil table data")
		}
	}
	verifAssume(nWritten > 0) // header.Read rejects files without tables; an empty font is outside the domain
	scaler := []uint32{ScalerTypeTrueType, ScalerTypeCFF, ScalerTypeApple}[verifChoose("scaler", 3)]
	verifMapOrder(true)
	w := &bytes.Buffer{}
	n, err := Write(w, scaler, tables)
	verifMapOrder(false)
	verifAssert(err == nil, "write to a buffer succeeds")
	file := w.Bytes()
	verifAssert(n == int64(len(file)), "returned byte count is the file length")
	verifAssert(refU32(file, 0) == scaler, "scaler type")
	dir := refValidate(file, nWritten, hasHead)
	if dir == nil {
		return
	}
	verifReach("validated")
	// the tables in the file are the tables written (head up to its checksum adjustment)
	for _, d := range dir {
		b, ok := want[d.tag]
		verifAssert(ok && len(b) == d.length, "directory lists the written tables with their lengths")
		if !ok || len(b) != d.length {
			return
		}
		got := file[d.off : d.off+d.length]
		if d.tag == "head" && d.length >= 12 {
			verifAssert(verifSame(got[:8], b[:8]) && verifSame(got[12:], b[12:]), "head bytes outside the adjustment field unchanged")
		} else {
			verifAssert(verifSame(got, b), "table bytes unchanged")
		}
	}
	// reading the container back
	r := bytes.NewReader(file)
	info, err := Read(r)
	verifAssert(err == nil, "own output is accepted by Read")
	if err != nil {
		return
	}
	verifReach("read back")
	verifAssert(info.ScalerType == scaler && len(info.Toc) == nWritten, "Read: scaler type and table count")
	for _, d := range dir {
		rec, ok := info.Toc[d.tag]
		verifAssert(ok && int(rec.Offset) == d.off && int(rec.Length) == d.length, "Read: directory entry")
		data, err := info.ReadTableBytes(r, d.tag)
		verifAssert(err == nil && verifSame(data, file[d.off:d.off+d.length]), "ReadTableBytes returns the table bytes")
	}
}

// VerifH_C03_checksum: checksum() equals the specification for every alignment; the streaming writer agrees.
func VerifH_C03_checksum() {
	n := verifChoose("len", verifParam("maxlen", 9)+1)
	data := verifBytes("data", n)
	if data == nil {
		data = []byte{}
	}
	want := refChecksum(data)
	verifAssert(checksum(data) == want, "checksum equals the specification")
	// streaming in two arbitrary pieces gives the same sum
	k := verifChoose("split", n+1)
	cc := &check{}
	cc.Write(data[:k])
	cc.Write(data[k:])
	verifAssert(cc.Sum() == want, "streamed checksum equals the specification")
	cc.Reset()
	cc.Write(data)
	verifAssert(cc.Sum() == want, "Reset restores the initial state")
	verifReach("done")
}
