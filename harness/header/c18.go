//go:build verif

package header

import (
	"bytes"
	"errors"
	"io"
)

var errVerifFault = errors.New("injected I/O fault")

// verifFailWriter accepts exactly `budget` bytes and then fails; a write that does not fit is a short
// write (n < len(p)) together with an error, as the io.Writer contract demands.
type verifFailWriter struct {
	budget   int
	accepted int
}

func (w *verifFailWriter) Write(p []byte) (int, error) {
	if len(p) <= w.budget {
		w.budget -= len(p)
		w.accepted += len(p)
		return len(p), nil
	}
	n := w.budget
	w.budget = 0
	w.accepted += n
	return n, errVerifFault
}

func verifTables() (map[string][]byte, int) {
	tables := map[string][]byte{}
	total := 12
	nt := 0
	if verifChoose("head", 2) == 1 {
		tables["head"] = verifBytes("head", 54)
		total += 56
		nt++
	}
	l1 := []int{0, 1, 4, 5}[verifChoose("len1", 4)]
	tables["glyf"] = append([]byte{}, verifBytes("glyf", l1)...)
	total += (l1 + 3) / 4 * 4
	nt++
	if verifChoose("third", 2) == 1 {
		l2 := []int{2, 3, 8}[verifChoose("len2", 3)]
		tables["zzzz"] = verifBytes("zzzz", l2)
		total += (l2 + 3) / 4 * 4
		nt++
	}
	return tables, total + 16*nt
}

// VerifH_C18_write: a destination that accepts exactly k bytes and then fails makes Write return a non-nil
// error and the number of bytes the destination accepted; on success the count equals the file length.
func VerifH_C18_write() {
	tables, fileLen := verifTables()
	k := int(verifU16("k"))
	verifAssume(k <= fileLen+4)
	w := &verifFailWriter{budget: k}
	n, err := Write(w, ScalerTypeTrueType, tables)
	if k >= fileLen {
		verifReach("success")
		verifAssert(err == nil, "no error when the destination accepts the whole file")
		verifAssert(n == int64(fileLen) && w.accepted == fileLen, "on success the count equals the file length")
	} else {
		verifReach("fault")
		verifAssert(err != nil, "a failing destination surfaces as an error")
		verifAssert(n == int64(k) && w.accepted == k, "the reported count equals what the destination accepted")
	}
}

// verifFaultReaderAt returns an error (not EOF) for any access touching offset >= failAt.
type verifFaultReaderAt struct {
	data   []byte
	failAt int64
}

func (r *verifFaultReaderAt) ReadAt(p []byte, off int64) (int, error) {
	if off < 0 {
		return 0, errors.New("negative offset")
	}
	if off+int64(len(p)) > r.failAt && len(p) > 0 {
		n := 0
		if off < r.failAt {
			n = copy(p, r.data[off:r.failAt])
		}
		return n, errVerifFault
	}
	if off >= int64(len(r.data)) {
		return 0, io.EOF
	}
	n := copy(p, r.data[off:])
	if n < len(p) {
		return n, io.EOF
	}
	return n, nil
}

// VerifH_C18_read: a file truncated inside its table data, or whose reader starts failing at an offset that
// is needed, is rejected with an error by header.Read / ReadTableBytes - never accepted, never a panic.
func VerifH_C18_read() {
	tables, fileLen := verifTables()
	// keep copies: Write patches the head table in place
	want := map[string][]byte{}
	for name, b := range tables {
		want[name] = append([]byte{}, b...)
	}
	buf := &bytes.Buffer{}
	n, err := Write(buf, ScalerTypeCFF, tables)
	verifAssert(err == nil && n == int64(fileLen), "reference file written")
	file := buf.Bytes()
	// end of the last byte of table data (the final table may be followed by padding only)
	dataEnd := 0
	nt := int(file[4])<<8 | int(file[5])
	for i := 0; i < nt; i++ {
		o := 12 + 16*i
		e := int(refU32(file, o+8)) + int(refU32(file, o+12))
		if e > dataEnd && refU32(file, o+12) > 0 {
			dataEnd = e
		}
	}
	if dataEnd == 0 {
		dataEnd = 12 + 16*nt
	}
	k := int(verifU16("k"))
	verifAssume(k < fileLen)
	switch verifChoose("mode", 2) {
	case 0: // truncation
		r := bytes.NewReader(file[:k])
		info, err := Read(r)
		if k < dataEnd {
			verifReach("truncated")
			verifAssert(err != nil, "a file truncated inside its table data is rejected")
		} else if err == nil {
			for name := range info.Toc {
				b, err := info.ReadTableBytes(r, name)
				verifAssert(err == nil && len(b) == len(want[name]), "tables of an untruncated directory are readable")
			}
		}
	default: // reader fails (not EOF) from offset k on
		r := &verifFaultReaderAt{data: file, failAt: int64(k)}
		info, err := Read(r)
		if k < 12+16*nt {
			verifReach("failing directory")
			verifAssert(err != nil, "a reader failing inside the directory is reported")
		}
		if err == nil {
			for name, rec := range info.Toc {
				b, err := info.ReadTableBytes(r, name)
				needsFail := int(rec.Offset)+int(rec.Length) > k && rec.Length > 0
				if needsFail {
					verifReach("failing table")
					verifAssert(err != nil, "a reader failing inside a table is reported when the table is read")
				} else {
					verifAssert(err == nil && len(b) == int(rec.Length), "tables before the fault are readable")
				}
			}
		}
	}
}
