//go:build verif

package header

import "bytes"

// VerifH_C02_header: header.Read on arbitrary bytes: value or error, never a panic; accepted directories are
// consistent with the file size.
func VerifH_C02_header() {
	nt := verifChoose("ntables", verifParam("maxtables", 2)+1)
	extra := verifChoose("extra", verifParam("maxextra", 1)+1) * 4
	in := verifBytes("in", 12+16*nt+extra)
	// spend the bytes on offsets/lengths: numTables as announced (other counts just hit EOF)
	verifAssume(in[4] == 0 && int(in[5]) <= nt+1)
	r := bytes.NewReader(in)
	info, err := Read(r)
	if err != nil {
		return
	}
	verifReach("accepted")
	for name, rec := range info.Toc {
		if verifParam("readtables", 0) == 0 {
			break
		}
		// every accepted table can be handed to the table readers
		data, err := info.ReadTableBytes(r, name)
		if err == nil {
			verifAssert(uint32(len(data)) <= rec.Length, "table bytes within the announced length")
		}
	}
	info.Has("head", "glyf")
}
