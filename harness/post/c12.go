//go:build verif

package post

import (
	"bytes"

	"seehuhn.de/go/postscript/funit"
)

// VerifH_C12_post: underline metrics, fixed pitch flag and the italic angle (any 16.16 value) survive.
func VerifH_C12_post() {
	info := &Info{
		ItalicAngle:        verifDyadic("angle", 16, -32768*65536, 32768*65536-1),
		UnderlinePosition:  funit.Int16(verifI16("ulpos")),
		UnderlineThickness: funit.Int16(verifI16("ulthick")),
		IsFixedPitch:       verifBool("fixed"),
	}
	enc := info.Encode()
	verifAssert(len(enc) == 32, "version 3 table is 32 bytes")
	got, err := Read(bytes.NewReader(enc))
	verifAssert(err == nil, "own table accepted")
	if err != nil {
		return
	}
	verifReach("read")
	verifAssert(got.ItalicAngle == info.ItalicAngle, "italic angle exact for 16.16 values")
	verifAssert(got.UnderlinePosition == info.UnderlinePosition && got.UnderlineThickness == info.UnderlineThickness && got.IsFixedPitch == info.IsFixedPitch && got.Names == nil, "other fields")
}

// VerifH_C12_post_bytes: arbitrary header bytes: total; fixed point.
func VerifH_C12_post_bytes() {
	n := 32 + verifChoose("extra", 5)
	in := verifBytes("in", n)
	verifAssume(in[0] == 0 && in[2] == 0 && in[3] == 0 && (in[1] == 1 || in[1] == 3 || in[1] == 4 || in[1] == 2))
	if in[1] == 2 {
		// version 2: keep the glyph count small
		if n >= 34 {
			verifAssume(in[32] == 0 && in[33] <= 1)
		}
	}
	g1, err := Read(bytes.NewReader(in))
	if err != nil {
		return
	}
	verifReach("accepted")
	e2 := g1.Encode()
	g2, err := Read(bytes.NewReader(e2))
	verifAssert(err == nil, "re-encoded accepted")
	if err != nil {
		return
	}
	verifAssert(g1.ItalicAngle == g2.ItalicAngle && g1.UnderlinePosition == g2.UnderlinePosition && g1.UnderlineThickness == g2.UnderlineThickness && g1.IsFixedPitch == g2.IsFixedPitch, "fixed point")
	verifAssert(verifSame(g1.Names, g2.Names), "names fixed point")
}
