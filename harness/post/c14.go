//go:build verif

package post

import "bytes"

// VerifH_C14_postnames: glyph names written to post in formats 1/2/3 are read back unchanged.
func VerifH_C14_postnames() {
	info := &Info{}
	switch verifChoose("kind", 3) {
	case 0:
		info.Names = nil // format 3
	case 1:
		info.Names = append([]string{}, macRoman...) // format 1: exactly the standard list
		if verifChoose("perturb", 2) == 1 {
			// one changed name forces format 2
			i := verifChoose("which", 3) * 128
			info.Names[i] = verifStr("custom", 1+verifChoose("clen", 2))
		}
	default:
		n := 1 + verifChoose("n", verifParam("maxnames", 3))
		for i := 0; i < n; i++ {
			if verifChoose("std", 2) == 0 {
				idx := int(verifU16("stdidx"))
				verifAssume(idx < len(macRoman))
				info.Names = append(info.Names, macRoman[idx])
			} else {
				info.Names = append(info.Names, verifStr("custom", verifChoose("clen", 3)))
			}
		}
	}
	enc := info.Encode()
	version := uint32(enc[0])<<24 | uint32(enc[1])<<16 | uint32(enc[2])<<8 | uint32(enc[3])
	switch {
	case info.Names == nil:
		verifAssert(version == 0x00030000, "format 3 without names")
	case isMacRoman(info.Names):
		verifAssert(version == 0x00010000, "format 1 for the standard list")
		verifReach("format1")
	default:
		verifAssert(version == 0x00020000, "format 2 otherwise")
		verifReach("format2")
	}
	got, err := Read(bytes.NewReader(enc))
	verifAssert(err == nil, "own table accepted")
	if err != nil {
		return
	}
	verifAssert(verifSame(got.Names, info.Names), "names read back unchanged")
}
