//go:build verif

package sfnt

import (
	"golang.org/x/text/language"

	"seehuhn.de/go/postscript/funit"
	"seehuhn.de/go/sfnt/glyf"
	"seehuhn.de/go/sfnt/glyph"
	"seehuhn.de/go/sfnt/opentype/classdef"
	"seehuhn.de/go/sfnt/opentype/coverage"
	"seehuhn.de/go/sfnt/opentype/gdef"
	"seehuhn.de/go/sfnt/opentype/gtab"
)

func verifText(n int) string {
	rr := make([]rune, n)
	for i := range rr {
		r := rune(verifU32("char"))
		// mapped characters A, B, f, i, the ligature U+FB01 and unmapped ones
		verifAssume(r == 'A' || r == 'B' || r == 'f' || r == 'i' || r == 'Z' || r == 0x1F600)
		rr[i] = r
	}
	return string(rr)
}

// VerifH_C15_plain: without applicable rules the output is exactly one glyph per character, carrying that
// character and the font's advance width; the same on a second call with the same layouter.
func VerifH_C15_plain() {
	f := verifTTFont(glyf.Glyphs{verifSimpleGlyph(0), verifSimpleGlyph(1), verifSimpleGlyph(2), verifSimpleGlyph(3)})
	o := f.Outlines.(*glyf.Outlines)
	for i := range o.Widths {
		o.Widths[i] = funit.Int16(verifI16("width"))
	}
	f.CMapTable = verifCmap12([]rune{'A', 'B'}, []glyph.ID{1, 2})
	// glyph 2 is a base glyph, a mark (marks get no advance) or unclassified
	class2 := verifU16("class2")
	verifAssume(class2 == 0 || class2 == 1 || class2 == 3)
	if verifBool("gdef") {
		f.Gdef = &gdef.Table{GlyphClass: classdef.Table{1: 1}}
		if class2 != 0 {
			f.Gdef.GlyphClass[2] = class2
		}
	} else {
		class2 = 0
	}
	l, err := f.NewLayouter(language.MustParse("en"), nil, nil)
	verifAssert(err == nil, "layouter created")
	if err != nil {
		return
	}
	s := verifText(verifChoose("len", verifParam("maxlen", 2)+1))
	first := l.Layout("AB")
	_ = first
	seq := l.Layout(s)
	verifReach("laid out")
	rr := []rune(s)
	verifAssert(len(seq) == len(rr), "one glyph per character")
	if len(seq) != len(rr) {
		return
	}
	for i, r := range rr {
		want := glyph.ID(0)
		if r == 'A' {
			want = 1
		} else if r == 'B' {
			want = 2
		}
		verifAssert(seq[i].GID == want, "glyph from the best cmap subtable (0 when unmapped)")
		verifAssert(len(seq[i].Text) == 1 && seq[i].Text[0] == r, "glyph carries its character")
		wantAdv := o.Widths[want]
		if want == 2 && class2 == 3 {
			wantAdv = 0
		}
		verifAssert(seq[i].Advance == wantAdv && seq[i].XOffset == 0 && seq[i].YOffset == 0, "advance is the font's advance width (none for marks), whatever was laid out before")
	}
}

// VerifH_C15_kern: a font carrying kerning pairs (as built from a legacy kern table) kerns every pair by exactly the table's value.
func VerifH_C15_kern() {
	f := verifTTFont(glyf.Glyphs{verifSimpleGlyph(0), verifSimpleGlyph(1), verifSimpleGlyph(2), verifSimpleGlyph(3)})
	f.CMapTable = verifCmap12([]rune{'A', 'B', 'f'}, []glyph.ID{1, 2, 3})
	k12, k21 := funit.Int16(verifI16("k12")), funit.Int16(verifI16("k21"))
	sub := gtab.Gpos2_1{
		glyph.Pair{Left: 1, Right: 2}: &gtab.PairAdjust{First: &gtab.GposValueRecord{XAdvance: k12}},
		glyph.Pair{Left: 2, Right: 1}: &gtab.PairAdjust{First: &gtab.GposValueRecord{XAdvance: k21}},
	}
	// exactly the structure sfnt.Read builds for a font which has a kern table but no GPOS table
	f.Gpos = &gtab.Info{
		ScriptList:  map[language.Tag]*gtab.Features{language.MustParse("und-Zzzz"): {Required: 0, Optional: []gtab.FeatureIndex{}}},
		FeatureList: []*gtab.Feature{{Tag: "kern", Lookups: []gtab.LookupIndex{0}}},
		LookupList:  []*gtab.LookupTable{{Meta: &gtab.LookupMetaInfo{LookupType: 2}, Subtables: []gtab.Subtable{sub}}},
	}
	l, err := f.NewLayouter(language.MustParse("en"), nil, nil)
	verifAssert(err == nil, "layouter created")
	if err != nil {
		return
	}
	s := verifText(2 + verifChoose("len", 2))
	seq := l.Layout(s)
	verifReach("laid out")
	rr := []rune(s)
	verifAssert(len(seq) == len(rr), "one glyph per character")
	if len(seq) != len(rr) {
		return
	}
	w := f.Outlines.(*glyf.Outlines).Widths
	for i := range seq {
		want := w[seq[i].GID]
		if i+1 < len(seq) {
			if seq[i].GID == 1 && seq[i+1].GID == 2 {
				want += k12
			} else if seq[i].GID == 2 && seq[i+1].GID == 1 {
				want += k21
			}
		}
		verifAssert(seq[i].Advance == want, "every pair is kerned by exactly the table's value")
	}
}

// VerifH_C15_liga: a proportional font without GSUB gets the standard f-ligatures it contains.
func VerifH_C15_liga() {
	// glyphs: 1 = f, 2 = i, 3 = l, 4 = fi, 5 = fl, 6 = ff, 7 = ffi, 8 = ffl; presence of each ligature symbolic
	codes := []rune{'f', 'i', 'l'}
	gids := []glyph.ID{1, 2, 3}
	// in code order (format 12 groups must be ascending): ff, fi, fl, ffi, ffl
	ligs := []rune{0xFB00, 0xFB01, 0xFB02, 0xFB03, 0xFB04}
	ligGid := []glyph.ID{6, 4, 5, 7, 8}
	have := map[rune]bool{}
	for k, r := range ligs {
		if verifBool("have") {
			codes = append(codes, r)
			gids = append(gids, ligGid[k])
			have[r] = true
		}
	}
	cm := verifCmap12(codes, gids)
	st, err := cm.GetBest()
	verifAssert(err == nil, "cmap readable")
	if err != nil {
		return
	}
	info := standardLigatures(st)
	anyLig := len(have) > 0
	verifAssert((info != nil) == anyLig, "ligature table exists iff the font contains a ligature glyph")
	if info == nil {
		return
	}
	verifReach("ligatures")
	lookups := info.FindLookups(language.MustParse("en"), gtab.GsubDefaultFeatures)
	verifAssert(len(lookups) == 1 && lookups[0] == 0, "the liga feature is enabled by default")
	off := info.FindLookups(language.MustParse("en"), map[string]bool{"liga": false})
	verifAssert(len(off) == 0, "the caller's feature switches are honoured: ligatures can be switched off")
	// shape "ffi": the longest ligature the font contains wins
	seq := []glyph.Info{{GID: 1, Text: []rune{'f'}}, {GID: 1, Text: []rune{'f'}}, {GID: 2, Text: []rune{'i'}}}
	out := gtab.NewContext(info.LookupList, nil, lookups).Apply(seq)
	switch {
	case have[0xFB03]:
		verifAssert(len(out) == 1 && out[0].GID == 7, "ffi -> ffi ligature")
	case have[0xFB00]:
		verifAssert(len(out) == 2 && out[0].GID == 6 && out[1].GID == 2, "ffi -> ff i")
	case have[0xFB01]:
		verifAssert(len(out) == 2 && out[0].GID == 1 && out[1].GID == 4, "ffi -> f fi")
	default:
		verifAssert(len(out) == 3, "no applicable ligature")
	}
}

// VerifH_C15_switches: NewLayouter honours the caller's feature switches.  The font has an optional `liga`
// feature (f i -> fi) and an optional `kern` feature (A B closer by a symbolic amount); each of the two
// switch maps is nil (defaults: both features are on), empty but non-nil (nothing selected), or names the
// feature with a solver-chosen value.
func VerifH_C15_switches() {
	f := verifTTFont(glyf.Glyphs{verifSimpleGlyph(0), verifSimpleGlyph(1), verifSimpleGlyph(2), verifSimpleGlyph(3), verifSimpleGlyph(4), verifSimpleGlyph(5)})
	f.CMapTable = verifCmap12([]rune{'A', 'B', 'f', 'i'}, []glyph.ID{1, 2, 3, 4})
	latin := language.MustParse("und-Latn-x-latn")
	f.Gsub = &gtab.Info{
		ScriptList:  map[language.Tag]*gtab.Features{latin: {Required: 0xFFFF, Optional: []gtab.FeatureIndex{0}}},
		FeatureList: []*gtab.Feature{{Tag: "liga", Lookups: []gtab.LookupIndex{0}}},
		LookupList: gtab.LookupList{{Meta: &gtab.LookupMetaInfo{LookupType: 4}, Subtables: []gtab.Subtable{
			&gtab.Gsub4_1{Cov: coverage.Table{3: 0}, Repl: [][]gtab.Ligature{{{In: []glyph.ID{4}, Out: 5}}}}}}},
	}
	k := funit.Int16(verifI16("kern"))
	verifAssume(k != 0)
	f.Gpos = &gtab.Info{
		ScriptList:  map[language.Tag]*gtab.Features{latin: {Required: 0xFFFF, Optional: []gtab.FeatureIndex{0}}},
		FeatureList: []*gtab.Feature{{Tag: "kern", Lookups: []gtab.LookupIndex{0}}},
		LookupList: gtab.LookupList{{Meta: &gtab.LookupMetaInfo{LookupType: 2}, Subtables: []gtab.Subtable{
			gtab.Gpos2_1{glyph.Pair{Left: 1, Right: 2}: &gtab.PairAdjust{First: &gtab.GposValueRecord{XAdvance: k}}}}}},
	}
	switches := func(tag, feature string) (map[string]bool, bool) {
		switch verifChoose(tag, 3) {
		case 0:
			return nil, true // defaults
		case 1:
			return map[string]bool{}, false // explicit, nothing switched on
		}
		on := verifBool(tag + ".on")
		return map[string]bool{feature: on}, on
	}
	gsubSw, ligaOn := switches("gsub", "liga")
	gposSw, kernOn := switches("gpos", "kern")
	l, err := f.NewLayouter(language.MustParse("en"), gsubSw, gposSw)
	verifAssert(err == nil, "layouter created")
	if err != nil {
		return
	}
	seq := l.Layout("fiAB")
	verifReach("laid out")
	if ligaOn {
		verifAssert(len(seq) == 3 && seq[0].GID == 5, "liga selected: f i becomes the ligature")
	} else {
		verifAssert(len(seq) == 4 && seq[0].GID == 3 && seq[1].GID == 4, "liga not selected: no ligature")
	}
	n := len(seq)
	if n >= 2 {
		want := funit.Int16(200) // advance width of glyph 1
		if kernOn {
			want += k
		}
		verifAssert(seq[n-2].GID == 1 && seq[n-2].Advance == want, "kern applied exactly when selected")
	}
}
