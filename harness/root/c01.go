//go:build verif

package sfnt

import (
	"bytes"
	"time"

	"seehuhn.de/go/postscript/funit"
	"seehuhn.de/go/sfnt/cmap"
	"seehuhn.de/go/sfnt/glyf"
	"seehuhn.de/go/sfnt/glyph"
	"seehuhn.de/go/sfnt/os2"
)

// verifIslandFont: a tiny TrueType font (3 glyphs incl. a composite and an empty glyph) of concrete shape
// whose numeric fields are symbolic "islands".
func verifIslandFont() *Font {
	// the first choice enumerates (units per em, width class, weight) so that exploration can be sharded
	nu, nw := verifParam("upems", 2), verifParam("widthclasses", 2)
	combo := verifChoose("combo", nu*nw*3)
	f := verifTTFont(glyf.Glyphs{verifSimpleGlyph(0), verifSimpleGlyph(1), verifCompositeGlyph(2, 1), nil})
	o := f.Outlines.(*glyf.Outlines)
	for i := range o.Widths {
		if i >= verifParam("symwidths", 2) {
			break // the remaining widths keep their concrete values
		}
		w := verifI16("width")
		verifAssume(w >= 0)
		o.Widths[i] = funit.Int16(w)
	}
	f.Ascent = funit.Int16(verifI16("ascent"))
	f.Descent = funit.Int16(verifI16("descent"))
	f.LineGap = funit.Int16(verifI16("linegap"))
	f.CapHeight = funit.Int16(verifI16("capheight"))
	f.XHeight = funit.Int16(verifI16("xheight"))
	verifAssume(f.CapHeight > 0 && f.XHeight > 0)
	// units per em by case split: the reader computes 1/unitsPerEm in floating point
	f.UnitsPerEm = []uint16{1000, 2048, 16}[combo%nu]
	if verifParam("symweight", 0) != 0 {
		f.Weight = os2.Weight(verifU16("weight"))
		verifAssume(f.Weight >= 1 && f.Weight <= 1000)
	} else {
		f.Weight = []os2.Weight{400, 650, 700}[combo/(nu*nw)]
	}
	f.Width = []os2.Width{5, 1, 9, 2, 3, 4, 6, 7, 8}[(combo/nu)%nw]
	f.IsBold = verifBool("bold")
	f.IsRegular = verifBool("regular")
	switch verifChoose("family", 3) {
	case 1:
		f.IsSerif = true
	case 2:
		f.IsScript = true
	}
	f.PermUse = os2.Permissions(verifChoose("perm", verifParam("perms", 2)))
	f.CodePageRange = os2.CodePageRange(verifU64("codepages"))
	f.UnderlinePosition = funit.Float64(verifI16("ulpos"))
	f.UnderlineThickness = funit.Float64(verifI16("ulthick"))
	f.CreationTime = time.Unix(1000000000, 0)
	f.ModificationTime = time.Unix(1100000000, 0)
	f.CMapTable = verifCmap12([]rune{'A', 'B'}, []glyph.ID{1, 2})
	return f
}

// VerifH_C01_truetype: Read(Write(F)) keeps the fields with an unambiguous mapping; a second cycle is a
// fixed point and byte-identical; writing twice gives the same bytes.
func VerifH_C01_truetype() {
	f := verifIslandFont()
	verifMapOrder(true)
	b1 := &bytes.Buffer{}
	n, err := f.Write(b1)
	verifAssert(err == nil && n == int64(b1.Len()), "font written, count equals length")
	b1b := &bytes.Buffer{}
	f.Write(b1b)
	verifMapOrder(false)
	verifAssert(verifSame(b1.Bytes(), b1b.Bytes()), "writing the same font twice gives the same bytes")
	verifObserve("file", b1.Bytes()) // translator validation: engine and native build must write the same file
	g1, err := Read(bytes.NewReader(b1.Bytes()))
	verifAssert(err == nil, "own file accepted")
	if err != nil {
		return
	}
	verifReach("read back")
	o, o1 := f.Outlines.(*glyf.Outlines), g1.Outlines.(*glyf.Outlines)
	verifAssert(verifSame(o1.Widths, o.Widths), "advance widths")
	verifAssert(len(o1.Glyphs) == len(o.Glyphs), "glyph count")
	verifAssert(g1.Ascent == f.Ascent && g1.Descent == f.Descent && g1.LineGap == f.LineGap, "vertical metrics")
	verifAssert(g1.CapHeight == f.CapHeight && g1.XHeight == f.XHeight, "cap height / x-height")
	verifAssert(g1.UnitsPerEm == f.UnitsPerEm, "units per em")
	verifAssert(g1.Weight == f.Weight && g1.Width == f.Width, "weight and width class")
	verifAssert(g1.PermUse == f.PermUse && g1.CodePageRange == f.CodePageRange, "permissions and code pages")
	verifAssert(g1.UnderlinePosition == f.UnderlinePosition && g1.UnderlineThickness == f.UnderlineThickness, "underline metrics")
	verifAssert(g1.CreationTime.Unix() == f.CreationTime.Unix() && g1.ModificationTime.Unix() == f.ModificationTime.Unix(), "timestamps")
	verifAssert(g1.FamilyName == f.FamilyName, "family name")
	// fixed point
	b2 := &bytes.Buffer{}
	g1.Write(b2)
	g2, err := Read(bytes.NewReader(b2.Bytes()))
	verifAssert(err == nil, "second cycle accepted")
	if err != nil {
		return
	}
	b3 := &bytes.Buffer{}
	g2.Write(b3)
	verifAssert(verifSame(b2.Bytes(), b3.Bytes()), "one write/read cycle is a byte fixed point")
}

// VerifH_C01_shapes: further font shapes through Write -> Read -> Write: a composite glyph that declares
// instructions (0..2 symbolic bytes, followed by another glyph), naming strings with an arbitrary Unicode
// scalar value (any plane), and a character map with two Macintosh subtables that differ in the language field
// only (symbolic languages).
func VerifH_C01_shapes() {
	variant := verifChoose("variant", 6) // 0: instructions, 1..4: strings (one UTF-8 length class each), 5: cmap
	glyphs := glyf.Glyphs{verifSimpleGlyph(0), verifSimpleGlyph(1), verifCompositeGlyph(2, 1), nil, verifSimpleGlyph(4)}
	f := verifTTFont(glyphs)
	f.CreationTime = time.Unix(1000000000, 0)
	f.ModificationTime = time.Unix(1100000000, 0)
	f.CMapTable = verifCmap12([]rune{'A', 'B'}, []glyph.ID{1, 2})
	switch variant {
	case 0:
		cg := glyphs[2].Data.(glyf.CompositeGlyph)
		cg.Components[len(cg.Components)-1].Flags |= glyf.FlagWeHaveInstructions
		cg.Instructions = append(make([]byte, 0, 2), verifBytes("instr", verifChoose("ilen", 3))...)
		glyphs[2].Data = cg
	case 1, 2, 3, 4:
		r := rune(verifU32("rune"))
		lo := []rune{0x20, 0x80, 0x800, 0x10000}[variant-1]
		hi := []rune{0x7F, 0x7FF, 0xFFFF, 0x10FFFF}[variant-1]
		verifAssume(r >= lo && r <= hi && (r < 0xD800 || r > 0xDFFF))
		f.Copyright = "C" + string(r)
		f.SampleText = string(r) + "x"
		f.Description = string(r)
	default:
		la, lb := verifU16("langa"), verifU16("langb")
		verifAssume(la != lb)
		m := cmap.Format4{'A': 1, 'B': 2}
		f.CMapTable = cmap.Table{
			cmap.Key{PlatformID: 1, EncodingID: 0, Language: la}: m.Encode(la),
			cmap.Key{PlatformID: 1, EncodingID: 0, Language: lb}: m.Encode(lb),
		}
	}
	verifMapOrder(true)
	b1 := &bytes.Buffer{}
	n, err := f.Write(b1)
	verifAssert(err == nil && n == int64(b1.Len()), "font written, count equals length")
	b1b := &bytes.Buffer{}
	f.Write(b1b)
	verifMapOrder(false)
	verifAssert(verifSame(b1.Bytes(), b1b.Bytes()), "writing the same font twice gives the same bytes")
	g1, err := Read(bytes.NewReader(b1.Bytes()))
	verifAssert(err == nil, "own file accepted")
	if err != nil {
		return
	}
	verifReach("read back")
	o1 := g1.Outlines.(*glyf.Outlines)
	verifAssert(len(o1.Glyphs) == len(glyphs), "glyph count")
	for i, gl := range glyphs {
		if gl == nil {
			verifAssert(o1.Glyphs[i] == nil, "empty glyph stays empty")
			continue
		}
		verifAssert(o1.Glyphs[i] != nil && verifSame(o1.Glyphs[i].Data, gl.Data), "glyph outlines (components, instructions) come back unchanged")
	}
	verifAssert(g1.Copyright == f.Copyright && g1.SampleText == f.SampleText && g1.Description == f.Description, "naming and licensing strings come back unchanged")
	verifAssert(len(g1.CMapTable) == len(f.CMapTable), "all cmap subtables come back")
	for k, v := range f.CMapTable {
		verifAssert(verifSame(g1.CMapTable[k], v), "cmap subtables come back unchanged")
	}
	b2 := &bytes.Buffer{}
	g1.Write(b2)
	g2, err := Read(bytes.NewReader(b2.Bytes()))
	verifAssert(err == nil, "second cycle accepted")
	if err != nil {
		return
	}
	b3 := &bytes.Buffer{}
	g2.Write(b3)
	verifAssert(verifSame(b2.Bytes(), b3.Bytes()), "one write/read cycle is a byte fixed point")
}
