//go:build verif

package sfnt

import (
	"seehuhn.de/go/geom/matrix"
	"seehuhn.de/go/postscript/cid"
	"seehuhn.de/go/postscript/type1"

	"seehuhn.de/go/sfnt/cff"
	"seehuhn.de/go/sfnt/cmap"
	"seehuhn.de/go/sfnt/glyf"
	"seehuhn.de/go/sfnt/glyph"
	"seehuhn.de/go/sfnt/opentype/coverage"
	"seehuhn.de/go/sfnt/opentype/gtab"
)

// sameOutline: glyph g of font a and glyph h of font b are "the same glyph": same box, same width, same
// name, same data, where composite components must in turn refer to the same outlines (compared by name).
func sameOutline(a *glyf.Outlines, g glyph.ID, b *glyf.Outlines, h glyph.ID, depth int) bool {
	if int(g) >= len(a.Glyphs) || int(h) >= len(b.Glyphs) || depth > 4 {
		return false
	}
	if a.Widths[g] != b.Widths[h] || a.Names[g] != b.Names[h] {
		return false
	}
	x, y := a.Glyphs[g], b.Glyphs[h]
	if x == nil || y == nil {
		return x == nil && y == nil
	}
	if x.Rect16 != y.Rect16 {
		return false
	}
	switch dx := x.Data.(type) {
	case glyf.SimpleGlyph:
		dy, ok := y.Data.(glyf.SimpleGlyph)
		return ok && dx.NumContours == dy.NumContours && verifSame(dx.Encoded, dy.Encoded)
	case glyf.CompositeGlyph:
		dy, ok := y.Data.(glyf.CompositeGlyph)
		if !ok || len(dx.Components) != len(dy.Components) || !verifSame(dx.Instructions, dy.Instructions) {
			return false
		}
		for i := range dx.Components {
			cx, cy := dx.Components[i], dy.Components[i]
			if cx.Flags != cy.Flags || !verifSame(cx.Data, cy.Data) {
				return false
			}
			if !sameOutline(a, cx.GlyphIndex, b, cy.GlyphIndex, depth+1) {
				return false
			}
		}
		return true
	}
	return false
}

// VerifH_C10_glyf: subsetting a TrueType font with nested composites: glyph i of the subset is the listed
// glyph i; needed components are appended; every component reference still points to the same outline.
func VerifH_C10_glyf() {
	c3 := glyph.ID(verifU16("comp3"))
	verifAssume(c3 == 1 || c3 == 2)
	c4 := glyph.ID(verifU16("comp4"))
	verifAssume(c4 >= 1 && c4 <= 3)
	f := verifTTFont(glyf.Glyphs{verifSimpleGlyph(0), verifSimpleGlyph(1), verifSimpleGlyph(2), verifCompositeGlyph(3, c3), verifCompositeGlyph(4, c4, 1), nil})
	k := 1 + verifChoose("listed", verifParam("maxlisted", 2))
	list := append([]glyph.ID{0}, verifDistinctGIDs("pick", k, 1, 5)...)
	verifMapOrder(true)
	sub := f.Subset(list)
	verifMapOrder(false)
	verifReach("subset")
	old, nw := f.Outlines.(*glyf.Outlines), sub.Outlines.(*glyf.Outlines)
	verifAssert(len(nw.Glyphs) >= len(list) && len(nw.Widths) == len(nw.Glyphs) && len(nw.Names) == len(nw.Glyphs), "subset has at least the listed glyphs, with widths and names")
	if len(nw.Glyphs) < len(list) || len(nw.Widths) != len(nw.Glyphs) || len(nw.Names) != len(nw.Glyphs) {
		return
	}
	for i, g := range list {
		verifAssert(sameOutline(old, g, nw, glyph.ID(i), 0), "glyph i of the subset is the listed glyph i, components re-pointed to the same outlines")
	}
	for i := len(list); i < len(nw.Glyphs); i++ {
		// extra glyphs are original glyphs too
		found := false
		for g := range old.Glyphs {
			if old.Names[g] == nw.Names[i] && sameOutline(old, glyph.ID(g), nw, glyph.ID(i), 0) {
				found = true
			}
		}
		verifAssert(found, "appended glyphs are glyphs of the original font")
	}
	// the original font is unchanged
	verifAssert(len(old.Glyphs) == 6 && old.Glyphs[3].Data.(glyf.CompositeGlyph).Components[0].GlyphIndex == c3, "original font untouched")
}

// VerifH_C10_cmap: every character that mapped to a retained glyph maps to its new index; no other character is mapped.
func VerifH_C10_cmap() {
	f := verifTTFont(glyf.Glyphs{verifSimpleGlyph(0), verifSimpleGlyph(1), verifSimpleGlyph(2), verifSimpleGlyph(3), verifSimpleGlyph(4)})
	codes := []rune{'A', 'B', 'C', 0x1F600}
	targets := []glyph.ID{glyph.ID(verifU16("ta")), glyph.ID(verifU16("tb")), glyph.ID(verifU16("tc")), glyph.ID(verifU16("td"))}
	for _, t := range targets {
		verifAssume(t >= 1 && t <= 4)
	}
	f.CMapTable = verifCmap12(codes, targets)
	list := append([]glyph.ID{0}, verifDistinctGIDs("pick", 1+verifChoose("listed", 3), 1, 4)...)
	sub := f.Subset(list)
	verifReach("subset")
	newIdx := map[glyph.ID]glyph.ID{}
	for i, g := range list {
		newIdx[g] = glyph.ID(i)
	}
	st, err := sub.CMapTable.GetBest()
	anyKept := false
	for _, t := range targets {
		if _, ok := newIdx[t]; ok {
			anyKept = true
		}
	}
	if anyKept {
		verifAssert(err == nil && st != nil, "the subset has a character map when mapped glyphs are retained")
	}
	if err != nil || st == nil {
		return
	}
	for i, c := range codes {
		want := glyph.ID(0)
		if n, ok := newIdx[targets[i]]; ok {
			want = n
		}
		verifAssert(st.Lookup(c) == want, "characters of retained glyphs map to the new index, others are unmapped")
	}
	verifAssert(st.Lookup('Z') == 0 && st.Lookup('@') == 0 && st.Lookup('D') == 0, "no other character is mapped")
	_ = cmap.Key{}
}

// VerifH_C10_layout: ligature rules and kerning pairs among retained glyphs keep their meaning under the new numbering.
func VerifH_C10_layout() {
	f := verifTTFont(glyf.Glyphs{verifSimpleGlyph(0), verifSimpleGlyph(1), verifSimpleGlyph(2), verifSimpleGlyph(3), verifSimpleGlyph(4)})
	lig := gtab.Ligature{In: []glyph.ID{2}, Out: 3}
	f.Gsub = &gtab.Info{LookupList: gtab.LookupList{{Meta: &gtab.LookupMetaInfo{LookupType: 4}, Subtables: []gtab.Subtable{&gtab.Gsub4_1{Cov: coverage.Table{1: 0}, Repl: [][]gtab.Ligature{{lig}}}}}}}
	kern := &gtab.GposValueRecord{XAdvance: -50}
	// one kerning pair between two solver-chosen glyphs (the ligature glyph 3 included)
	kl, kr := verifDistinctGIDs("kern", 1, 1, 4)[0], verifDistinctGIDs("kern", 1, 1, 4)[0]
	f.Gpos = &gtab.Info{LookupList: gtab.LookupList{{Meta: &gtab.LookupMetaInfo{LookupType: 2}, Subtables: []gtab.Subtable{gtab.Gpos2_1{glyph.Pair{Left: kl, Right: kr}: &gtab.PairAdjust{First: kern}}}}}}
	list := append([]glyph.ID{0}, verifDistinctGIDs("pick", 2+verifChoose("listed", 2), 1, 4)...)
	sub := f.Subset(list)
	verifReach("subset")
	nw := sub.Outlines.(*glyf.Outlines)
	// retained glyphs: the listed ones plus the ligature glyph when both of its components are listed
	// (glyph names identify the outlines: name "g<k>" belongs to the original glyph k)
	newIdx := map[glyph.ID]glyph.ID{}
	for i, g := range list {
		newIdx[g] = glyph.ID(i)
	}
	_, has1 := newIdx[1]
	_, has2 := newIdx[2]
	if _, has3 := newIdx[3]; has1 && has2 && !has3 {
		verifAssert(len(nw.Names) == len(list)+1 && nw.Names[len(list)] == "g3", "the ligature glyph needed by a retained rule is appended")
		newIdx[3] = glyph.ID(len(list))
	} else {
		verifAssert(len(nw.Names) == len(list), "no other glyph is appended")
	}
	n1, n2 := newIdx[1], newIdx[2]
	if has1 && has2 {
		// the ligature 1 2 -> 3 must survive: shaping [new1 new2] gives the glyph that was glyph 3
		verifAssert(sub.Gsub != nil && len(sub.Gsub.LookupList) == 1, "ligature lookup kept")
		if sub.Gsub != nil && len(sub.Gsub.LookupList) == 1 {
			seq := []glyph.Info{{GID: n1}, {GID: n2}}
			out := gtab.NewContext(sub.Gsub.LookupList, nil, []gtab.LookupIndex{0}).Apply(seq)
			verifAssert(len(out) == 1 && int(out[0].GID) < len(nw.Names) && nw.Names[out[0].GID] == "g3", "ligature rule keeps its meaning under the new numbering")
			verifReach("ligature")
		}
	}
	// kerning pairs survive exactly when both glyphs are retained (a pair must never be re-targeted at other glyphs)
	nl, hasL := newIdx[kl]
	nr, hasR := newIdx[kr]
	if sub.Gpos != nil {
		for _, lt := range sub.Gpos.LookupList {
			for _, st := range lt.Subtables {
				if p2, ok := st.(gtab.Gpos2_1); ok {
					want := 0
					if hasL && hasR {
						want = 1
					}
					verifAssert(len(p2) == want, "only kerning pairs among retained glyphs are kept")
					for pair := range p2 {
						verifAssert(pair.Left == nl && pair.Right == nr, "kept pairs name the re-indexed glyphs")
					}
				}
			}
		}
	}
	if hasL && hasR {
		seq := []glyph.Info{{GID: nl, Advance: 100}, {GID: nr, Advance: 500}}
		verifAssert(sub.Gpos != nil && len(sub.Gpos.LookupList) == 1, "kerning lookup kept")
		if sub.Gpos != nil && len(sub.Gpos.LookupList) == 1 {
			out := gtab.NewContext(sub.Gpos.LookupList, nil, []gtab.LookupIndex{0}).Apply(seq)
			verifAssert(len(out) == 2 && out[0].Advance == 50, "kerning pair keeps its meaning under the new numbering")
			verifReach("kerning")
		}
	}
}

// VerifH_C10_cff: subsetting a CID-keyed CFF font with several font dictionaries keeps, for every listed glyph,
// its outline, CID, private dictionary and font matrix.
func VerifH_C10_cff() {
	nfd := 3
	o := &cff.Outlines{ROS: &cid.SystemInfo{Registry: "Adobe", Ordering: "Identity"}}
	for i := 0; i < nfd; i++ {
		o.Private = append(o.Private, &type1.PrivateDict{BlueShift: int32(10 + i)})
		o.FontMatrices = append(o.FontMatrices, matrix.Matrix{1, 0, 0, 1, float64(i), 0})
	}
	n := 5
	fds := make([]int, n)
	for i := 0; i < n; i++ {
		o.Glyphs = append(o.Glyphs, &cff.Glyph{Width: float64(100 * (i + 1))})
		o.GIDToCID = append(o.GIDToCID, cid.CID(7*i))
		if i > 0 {
			fd := int(verifU8("fd"))
			verifAssume(fd < nfd)
			fds[i] = fd
		}
	}
	o.FDSelect = func(g glyph.ID) int { return fds[g] }
	f := &Font{FamilyName: "Test", UnitsPerEm: 1000, Outlines: o}
	list := append([]glyph.ID{0}, verifDistinctGIDs("pick", 1+verifChoose("listed", 2), 1, 4)...)
	sub := f.Subset(list)
	verifReach("subset")
	so := sub.Outlines.(*cff.Outlines)
	verifAssert(len(so.Glyphs) == len(list) && len(so.GIDToCID) == len(list), "one glyph and one CID per listed glyph")
	if len(so.Glyphs) != len(list) || len(so.GIDToCID) != len(list) {
		return
	}
	for i, g := range list {
		verifAssert(so.Glyphs[i] == o.Glyphs[g], "glyph i of the subset is the listed glyph i")
		verifAssert(so.GIDToCID[i] == o.GIDToCID[g], "CID kept")
		fd := so.FDSelect(glyph.ID(i))
		ok := fd >= 0 && fd < len(so.Private) && fd < len(so.FontMatrices)
		verifAssert(ok, "font dictionary index in range")
		if ok {
			verifAssert(so.Private[fd] == o.Private[fds[g]], "private dictionary of every glyph kept")
			verifAssert(so.FontMatrices[fd] == o.FontMatrices[fds[g]], "font matrix of every glyph kept")
		}
	}
}
