//go:build verif

package sfnt

import (
	"seehuhn.de/go/postscript/funit"

	"seehuhn.de/go/sfnt/cmap"
	"seehuhn.de/go/sfnt/glyf"
	"seehuhn.de/go/sfnt/glyph"
	"seehuhn.de/go/sfnt/head"
	"seehuhn.de/go/sfnt/maxp"
)

// verifSimpleGlyph is a small simple glyph whose first coordinate byte identifies it.
func verifSimpleGlyph(tagByte byte) *glyf.Glyph {
	// one contour, one point: endPts=0, no instructions, flag 0x37 (on curve, x/y short positive), x, y
	return &glyf.Glyph{
		Rect16: funit.Rect16{LLx: 0, LLy: 0, URx: funit.Int16(tagByte), URy: 10},
		Data:   glyf.SimpleGlyph{NumContours: 1, Encoded: []byte{0, 0, 0, 0, 0x37, tagByte, 10}},
	}
}

func verifCompositeGlyph(tagByte byte, comps ...glyph.ID) *glyf.Glyph {
	cg := glyf.CompositeGlyph{}
	for i, c := range comps {
		f := glyf.FlagArgsAreXYValues
		if i < len(comps)-1 {
			f |= glyf.FlagMoreComponents
		}
		cg.Components = append(cg.Components, glyf.GlyphComponent{Flags: f, GlyphIndex: c, Data: []byte{byte(i), tagByte}})
	}
	return &glyf.Glyph{Rect16: funit.Rect16{URx: funit.Int16(tagByte), URy: 20}, Data: cg}
}

// verifTTFont builds a TrueType font with the given glyphs (widths 100*(i+1), names "g<i>").
func verifTTFont(glyphs glyf.Glyphs) *Font {
	o := &glyf.Outlines{Glyphs: glyphs, Maxp: &maxp.TTFInfo{}}
	for i := range glyphs {
		o.Widths = append(o.Widths, funit.Int16(100*(i+1)))
		name := ".notdef"
		if i > 0 {
			name = "g" + string(rune('0'+i))
		}
		o.Names = append(o.Names, name)
	}
	return &Font{FamilyName: "Test", UnitsPerEm: 1000, Version: head.Version(0x10000), Ascent: 800, Descent: -200, Outlines: o}
}

// verifCmap12 builds a format 12 cmap table (3,10) mapping codes[i] -> gids[i] (one group per code).
func verifCmap12(codes []rune, gids []glyph.ID) cmap.Table {
	n := len(codes)
	l := 16 + 12*n
	b := []byte{0, 12, 0, 0, 0, 0, byte(l >> 8), byte(l), 0, 0, 0, 0, 0, 0, 0, byte(n)}
	for i, c := range codes {
		b = append(b, 0, byte(c>>16), byte(c>>8), byte(c), 0, byte(c>>16), byte(c>>8), byte(c), 0, 0, byte(gids[i]>>8), byte(gids[i]))
	}
	return cmap.Table{cmap.Key{PlatformID: 3, EncodingID: 10}: b}
}

// verifDistinctGIDs returns k distinct symbolic glyph ids in [lo, hi].
func verifDistinctGIDs(tag string, k int, lo, hi glyph.ID) []glyph.ID {
	var ids []glyph.ID
	for i := 0; i < k; i++ {
		g := glyph.ID(verifU16(tag))
		verifAssume(g >= lo && g <= hi)
		for _, o := range ids {
			verifAssume(o != g)
		}
		ids = append(ids, g)
	}
	return ids
}
