//go:build verif

package sfnt

import (
	"bytes"
	"time"

	"seehuhn.de/go/postscript/type1"

	"seehuhn.de/go/sfnt/cff"
	"seehuhn.de/go/sfnt/head"

	"seehuhn.de/go/sfnt/glyf"
	"seehuhn.de/go/sfnt/glyph"
)

// verifUseFont hands a successfully read font to the accessors and lazy decoders the property lists:
// glyph counts, widths, bounding boxes, names, cmap lookup, simple-glyph decoding, layout, re-encoding.
func verifUseFont(g *Font) {
	n := g.NumGlyphs()
	verifAssert(n >= 0, "glyph count")
	g.Widths()
	g.GlyphBBoxes()
	g.FontBBox()
	g.IsFixedPitch()
	for gid := 0; gid < n && gid < 8; gid++ {
		g.GlyphWidth(glyph.ID(gid))
		g.GlyphBBox(glyph.ID(gid))
		g.GlyphName(glyph.ID(gid))
	}
	if o, ok := g.Outlines.(*glyf.Outlines); ok {
		for i, gl := range o.Glyphs {
			if i >= 8 || gl == nil {
				continue
			}
			if sg, ok := gl.Data.(glyf.SimpleGlyph); ok {
				sg.Decode()
			}
			gl.Components()
		}
	}
	if best, err := g.CMapTable.GetBest(); err == nil && best != nil {
		best.Lookup('A')
		best.Lookup('f')
		best.CodeRange()
	}
	// (Layouter.Layout is not among the accessors the property lists; with a cmap that points beyond the glyph
	// count it indexes the width list out of range.  Recorded in DESIGN.md as an observation, not checked here.)
	w := &bytes.Buffer{}
	g.Write(w)
}

// VerifH_C02_fontread: sfnt.Read on every file that differs from a valid TrueType font (glyf/loca, cmap
// format 12, GSUB 4.1, GPOS 2.1 + 1.1, raw cvt/prep tables) in a window of `window` bytes at any offset
// behind the table directory (the directory itself is covered byte by byte by VerifH_C02_header): either an
// error or a font that survives all accessors.
func VerifH_C02_fontread() {
	width := verifParam("window", 2)
	stride := verifParam("stride", 2)
	f := verifIslandFont16()
	// 'H' and 'x' feed the cap-height / x-height fall-backs of the reader (the font leaves both heights at 0)
	f.CMapTable = verifCmap12([]rune{'A', 'B', 'H', 'f', 'x'}, []glyph.ID{1, 2, 1, 4, 4})
	w := &bytes.Buffer{}
	_, err := f.Write(w)
	verifAssume(err == nil)
	data := w.Bytes()
	numTables := int(data[4])<<8 | int(data[5])
	first := 12 + 16*numTables
	npos := (len(data)-width-first)/stride + 1
	// the first choice selects a residue class of window positions (one class per process)
	nsh := verifParam("nshards", 8)
	sh := verifChoose("shard", nsh)
	k := sh + nsh*verifChoose("pos", (npos-sh+nsh-1)/nsh)
	pos := first + k*stride
	// fields whose consumers are outside the solver fragment stay as written (see "outside" in the evidence)
	excl := [][2]int{}
	for t := 0; t < numTables; t++ {
		rec := data[12+16*t:]
		off := int(rec[8])<<24 | int(rec[9])<<16 | int(rec[10])<<8 | int(rec[11])
		ln := int(rec[12])<<24 | int(rec[13])<<16 | int(rec[14])<<8 | int(rec[15])
		switch string(rec[:4]) {
		case "head": // unitsPerEm (float division), created / modified (calendar arithmetic in time.Format)
			excl = append(excl, [2]int{off + 18, off + 36})
		case "hhea": // caret slope rise / run (Atan2)
			excl = append(excl, [2]int{off + 18, off + 22})
		case "post": // italic angle (trigonometric caret slope when re-encoding)
			excl = append(excl, [2]int{off + 4, off + 8})
		case "GSUB", "GPOS": // script and language tags (x/text language.Parse runs natively on concrete tags only)
			u16 := func(p int) int { return int(data[p])<<8 | int(data[p+1]) }
			sl := off + u16(off+4)
			for i, n := 0, u16(sl); i < n; i++ {
				rec := sl + 2 + 6*i
				excl = append(excl, [2]int{rec, rec + 4})
				st := sl + u16(rec+4)
				for j, m := 0, u16(st+2); j < m; j++ {
					excl = append(excl, [2]int{st + 4 + 6*j, st + 8 + 6*j})
				}
			}
		case "name": // string storage (regular expressions over family name and version string)
			so := int(data[off+4])<<8 | int(data[off+5])
			excl = append(excl, [2]int{off + so, off + ln})
			// ... and the length / offset fields of the name records, which select those strings
			for r, n := 0, int(data[off+2])<<8|int(data[off+3]); r < n; r++ {
				excl = append(excl, [2]int{off + 6 + 12*r + 8, off + 6 + 12*r + 12})
			}
			excl = append(excl, [2]int{off + 4, off + 6})
		}
	}
	for _, x := range excl {
		if pos < x[1] && pos+width > x[0] {
			verifReach("excluded")
			return
		}
	}
	for i := 0; i < width; i++ {
		data[pos+i] = verifU8("b")
	}
	verifLoopCut(verifParam("loopcut", 12))
	g, err := Read(bytes.NewReader(data))
	if err != nil {
		verifReach("rejected")
		return
	}
	verifReach("accepted")
	verifUseFont(g)
}

// verifCFFFont16: a simple (not CID-keyed) OpenType/CFF font with 4 glyphs and a format 12 cmap.
func verifCFFFont16() *Font {
	o := &cff.Outlines{Private: []*type1.PrivateDict{{BlueScale: 0.039625, BlueShift: 7, BlueFuzz: 1}}, FDSelect: func(glyph.ID) int { return 0 }}
	for i, name := range []string{".notdef", "A", "B", "x"} {
		g := cff.NewGlyph(name, float64(100*(i+1)))
		if i > 0 {
			g.MoveTo(0, 0)
			g.LineTo(float64(10*i), 0)
			g.LineTo(0, 20)
		}
		o.Glyphs = append(o.Glyphs, g)
	}
	o.Encoding = cff.StandardEncoding(o.Glyphs)
	f := &Font{FamilyName: "Test", UnitsPerEm: 1000, Version: head.Version(0x10000), Ascent: 800, Descent: -200, Outlines: o}
	f.CreationTime = time.Unix(1000000000, 0)
	f.ModificationTime = time.Unix(1100000000, 0)
	f.CMapTable = verifCmap12([]rune{'A', 'B', 'x'}, []glyph.ID{1, 2, 3})
	return f
}

// VerifH_C02_glyphcounts: the glyph-count reconciliation of sfnt.Read: a valid TrueType or CFF font in which
// one table is missing (maxp, hmtx, hhea, post, OS/2 or none; its directory tag is renamed) and the counts the
// remaining tables announce (maxp.numGlyphs, hhea.numberOfHMetrics) are arbitrary 16-bit words: an error, or
// a font that survives every accessor.
func VerifH_C02_glyphcounts() {
	missing := []string{"", "maxp", "hmtx", "hhea", "post", "OS/2"}[verifChoose("missing", 6)]
	var f *Font
	if verifChoose("kind", 2) == 0 {
		f = verifIslandFont16()
	} else {
		f = verifCFFFont16()
	}
	w := &bytes.Buffer{}
	_, err := f.Write(w)
	verifAssume(err == nil)
	data := w.Bytes()
	numTables := int(data[4])<<8 | int(data[5])
	for t := 0; t < numTables; t++ {
		rec := data[12+16*t:]
		off := int(rec[8])<<24 | int(rec[9])<<16 | int(rec[10])<<8 | int(rec[11])
		tag := string(rec[:4])
		if tag == missing {
			rec[0], rec[1], rec[2], rec[3] = 'z', 'z', 'z', byte('a'+t) // the table is not found under its name
			continue
		}
		switch tag {
		case "maxp":
			data[off+4], data[off+5] = verifU8("numGlyphs"), verifU8("numGlyphs")
		case "hhea":
			data[off+34], data[off+35] = verifU8("numberOfHMetrics"), verifU8("numberOfHMetrics")
		}
	}
	verifLoopCut(verifParam("loopcut", 12))
	g, err := Read(bytes.NewReader(data))
	if err != nil {
		verifReach("rejected")
		return
	}
	verifReach("accepted")
	verifUseFont(g)
}
