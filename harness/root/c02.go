//go:build verif

package sfnt

import (
	"bytes"

	"golang.org/x/text/language"

	"seehuhn.de/go/sfnt/glyf"
	"seehuhn.de/go/sfnt/glyph"
)

// verifUseFont hands a successfully read font to the accessors and lazy decoders the property lists:
// glyph counts, widths, bounding boxes, names, cmap lookup, simple-glyph decoding, layout, re-encoding.
func verifUseFont(g *Font) {
	n := g.NumGlyphs()
	verifAssert(n >= 0, "glyph count")
	g.Widths()
	g.GlyphBBoxes()
	g.FontBBox()
	g.IsFixedPitch()
	for gid := 0; gid < n && gid < 8; gid++ {
		g.GlyphWidth(glyph.ID(gid))
		g.GlyphBBox(glyph.ID(gid))
		g.GlyphName(glyph.ID(gid))
	}
	if o, ok := g.Outlines.(*glyf.Outlines); ok {
		for i, gl := range o.Glyphs {
			if i >= 8 || gl == nil {
				continue
			}
			if sg, ok := gl.Data.(glyf.SimpleGlyph); ok {
				sg.Decode()
			}
			gl.Components()
		}
	}
	if best, err := g.CMapTable.GetBest(); err == nil && best != nil {
		best.Lookup('A')
		best.Lookup('f')
		best.CodeRange()
	}
	if l, err := g.NewLayouter(language.MustParse("en"), nil, nil); err == nil {
		l.Layout("ABf")
	}
	w := &bytes.Buffer{}
	g.Write(w)
}

// VerifH_C02_fontread: sfnt.Read on every file that differs from a valid TrueType font (glyf/loca, cmap
// format 12, GSUB 4.1, GPOS 2.1 + 1.1, raw cvt/prep tables) in a window of `window` bytes at any offset
// behind the table directory (the directory itself is covered byte by byte by VerifH_C02_header): either an
// error or a font that survives all accessors.
func VerifH_C02_fontread() {
	width := verifParam("window", 2)
	stride := verifParam("stride", 2)
	f := verifIslandFont16()
	w := &bytes.Buffer{}
	_, err := f.Write(w)
	verifAssume(err == nil)
	data := w.Bytes()
	numTables := int(data[4])<<8 | int(data[5])
	first := 12 + 16*numTables
	npos := (len(data)-width-first)/stride + 1
	// the first choice selects a residue class of window positions (one class per process)
	nsh := verifParam("nshards", 8)
	sh := verifChoose("shard", nsh)
	k := sh + nsh*verifChoose("pos", (npos-sh+nsh-1)/nsh)
	pos := first + k*stride
	for i := 0; i < width; i++ {
		data[pos+i] = verifU8("b")
	}
	g, err := Read(bytes.NewReader(data))
	if err != nil {
		verifReach("rejected")
		return
	}
	verifReach("accepted")
	verifUseFont(g)
}
