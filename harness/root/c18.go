//go:build verif

package sfnt

import (
	"bytes"
	"errors"
	"io"
)

var errVerifFault = errors.New("injected I/O fault")

// verifFailWriter accepts exactly `budget` bytes and then fails (short write + error, as io.Writer demands).
type verifFailWriter struct {
	budget   int
	accepted int
}

func (w *verifFailWriter) Write(p []byte) (int, error) {
	if len(p) <= w.budget {
		w.budget -= len(p)
		w.accepted += len(p)
		return len(p), nil
	}
	n := w.budget
	w.budget = 0
	w.accepted += n
	return n, errVerifFault
}

// verifFaultReader returns the first failAt bytes and then a non-EOF error (a streaming reader that breaks);
// with failAt beyond the data it behaves like bytes.Reader.
type verifFaultReader struct {
	data   []byte
	pos    int
	failAt int
}

func (r *verifFaultReader) Read(p []byte) (int, error) {
	if r.pos >= len(r.data) && r.failAt >= len(r.data) {
		return 0, io.EOF
	}
	if r.pos >= r.failAt {
		return 0, errVerifFault
	}
	end := r.failAt
	if end > len(r.data) {
		end = len(r.data)
	}
	if r.pos >= end {
		return 0, errVerifFault
	}
	n := copy(p, r.data[r.pos:end])
	r.pos += n
	return n, nil
}

// VerifH_C18_fontwrite: the whole-font writers ((*Font).Write and WriteTrueTypePDF) into a destination that
// accepts exactly k bytes, for every k: an error and the accepted count, or success and the file length.
func VerifH_C18_fontwrite() {
	pdf := verifChoose("writer", 2) == 1
	f := verifIslandFont16()
	ref := &bytes.Buffer{}
	var fileLen int64
	var err error
	if pdf {
		fileLen, err = f.WriteTrueTypePDF(ref)
	} else {
		fileLen, err = f.Write(ref)
	}
	verifAssume(err == nil && fileLen == int64(ref.Len()))
	k := int(verifU16("k"))
	verifAssume(k <= int(fileLen)+2)
	w := &verifFailWriter{budget: k}
	var n int64
	if pdf {
		n, err = f.WriteTrueTypePDF(w)
	} else {
		n, err = f.Write(w)
	}
	if k >= int(fileLen) {
		verifReach("success")
		verifAssert(err == nil && n == fileLen && w.accepted == int(fileLen), "on success the count equals the file length")
	} else {
		verifReach("fault")
		verifAssert(err != nil, "a failing destination surfaces as an error")
		verifAssert(n == int64(k) && w.accepted == k, "the reported count equals what the destination accepted")
	}
}

// VerifH_C18_fontread: sfnt.Read on a streaming reader that breaks after k bytes (non-EOF error) and on a file
// truncated to k bytes, for every k: an error (never a font built from missing data, never a panic); with the
// whole file available the font is read.
func VerifH_C18_fontread() {
	f := verifIslandFont16()
	ref := &bytes.Buffer{}
	_, err := f.Write(ref)
	verifAssume(err == nil)
	data := ref.Bytes()
	k := int(verifU16("k"))
	verifAssume(k <= len(data))
	var g *Font
	if verifChoose("kind", 2) == 0 {
		g, err = Read(&verifFaultReader{data: data, failAt: k})
		if k < len(data) {
			verifAssert(err != nil && g == nil, "a reader fault surfaces as an error")
		}
	} else {
		g, err = Read(bytes.NewReader(data[:k]))
		if k < len(data) {
			verifAssert(err != nil && g == nil, "a truncated file is rejected")
		}
	}
	if k == len(data) {
		verifAssert(err == nil && g != nil, "the complete file is read")
		verifReach("complete")
	} else {
		verifReach("fault")
	}
}
