//go:build verif

package sfnt

import (
	"bytes"
	"time"

	"seehuhn.de/go/sfnt/cmap"
	"seehuhn.de/go/sfnt/glyf"
	"seehuhn.de/go/sfnt/glyph"
	"seehuhn.de/go/sfnt/header"
	"seehuhn.de/go/sfnt/os2"
)

// VerifH_C12_fontderived: font-level derived fields of the written OS/2 table: usFirstCharIndex and
// usLastCharIndex are the smallest / largest mapped code point of the best cmap subtable, each clamped to
// 0xFFFF, for maps of 1..3 symbolic code points from any plane.
func VerifH_C12_fontderived() {
	f := verifTTFont(glyf.Glyphs{verifSimpleGlyph(0), verifSimpleGlyph(1), verifSimpleGlyph(2), verifSimpleGlyph(3)})
	f.CreationTime = time.Unix(1000000000, 0)
	f.ModificationTime = time.Unix(1100000000, 0)
	n := 1 + verifChoose("codes", 3)
	m := cmap.Format12{}
	var lo, hi uint32 = 0x7FFFFFFF, 0
	for i := 0; i < n; i++ {
		c := verifU32("code")
		verifAssume(c >= 0x20 && c <= 0x10FFFF)
		m[c] = glyph.ID(1 + i)
		if c < lo {
			lo = c
		}
		if c > hi {
			hi = c
		}
	}
	f.CMapTable = cmap.Table{cmap.Key{PlatformID: 3, EncodingID: 10}: m.Encode(0)}
	w := &bytes.Buffer{}
	_, err := f.Write(w)
	verifAssert(err == nil, "font written")
	if err != nil {
		return
	}
	r := bytes.NewReader(w.Bytes())
	dir, err := header.Read(r)
	verifAssert(err == nil, "header read")
	if err != nil {
		return
	}
	fd, err := dir.TableReader(r, "OS/2")
	verifAssert(err == nil, "OS/2 present")
	if err != nil {
		return
	}
	info, err := os2.Read(fd)
	verifAssert(err == nil, "OS/2 read")
	if err != nil {
		return
	}
	verifReach("read")
	clamp := func(x uint32) uint16 {
		if x > 0xFFFF {
			return 0xFFFF
		}
		return uint16(x)
	}
	verifAssert(info.FirstCharIndex == clamp(lo), "usFirstCharIndex is the smallest mapped code point, clamped to 0xFFFF")
	verifAssert(info.LastCharIndex == clamp(hi), "usLastCharIndex is the largest mapped code point, clamped to 0xFFFF")
}
