//go:build verif

package sfnt

import (
	"seehuhn.de/go/postscript/type1"

	"seehuhn.de/go/sfnt/cff"
	"seehuhn.de/go/sfnt/glyf"
	"seehuhn.de/go/sfnt/glyph"
	"seehuhn.de/go/sfnt/opentype/coverage"
	"seehuhn.de/go/sfnt/opentype/gtab"
)

func verifName(tag string) string {
	n := verifChoose(tag+".len", verifParam("maxnamelen", 1)+1)
	s := verifStr(tag, n)
	for i := 0; i < n; i++ {
		// names over a tiny alphabet so that duplicates and collisions with generated names are likely
		verifAssume(s[i] == 'A' || s[i] == 'B' || s[i] == '.')
	}
	return s
}

func checkNames(orig []string, got []string, n int) {
	verifAssert(len(got) == n, "one name per glyph")
	if len(got) != n {
		return
	}
	verifAssert(got[0] == ".notdef", "glyph 0 is .notdef")
	for i := range got {
		verifAssert(got[i] != "", "no empty name")
		for j := 0; j < i; j++ {
			verifAssert(got[i] != got[j], "names pairwise distinct")
		}
	}
	// every existing unique name is kept
	for i := 1; i < n; i++ {
		if orig[i] == "" || orig[i] == ".notdef" {
			continue
		}
		unique := true
		for j := 1; j < n; j++ {
			if j != i && orig[j] == orig[i] {
				unique = false
			}
		}
		if unique {
			verifAssert(got[i] == orig[i], "existing unique names are kept")
		}
	}
}

// VerifH_C20_names: MakeGlyphNames on fonts with missing, duplicate and colliding names, a cmap and GSUB rules.
func VerifH_C20_names() {
	n := 4
	glyphs := glyf.Glyphs{verifSimpleGlyph(0), verifSimpleGlyph(1), verifSimpleGlyph(2), verifSimpleGlyph(3)}
	f := verifTTFont(glyphs)
	o := f.Outlines.(*glyf.Outlines)
	orig := make([]string, n)
	switch verifChoose("names", 3) {
	case 0:
		o.Names = nil // no names at all
	case 1:
		o.Names = []string{".notdef", "A"} // a short names list is ignored
	default:
		for i := 0; i < n; i++ {
			orig[i] = verifName("name")
		}
		o.Names = append([]string{}, orig...)
	}
	full := verifParam("fullsym", 0) != 0
	ta, tb := glyph.ID(verifU16("ta")), glyph.ID(1)
	if full {
		tb = glyph.ID(verifU16("tb"))
	}
	verifAssume(int(ta) < n && int(tb) < n)
	f.CMapTable = verifCmap12([]rune{'A', 'B'}, []glyph.ID{ta, tb})
	gsubKind := verifChoose("gsub", 4)
	g := func(tag string) glyph.ID {
		x := glyph.ID(verifU16(tag))
		verifAssume(int(x) < n)
		return x
	}
	// second id of each rule: symbolic in the thorough tier only
	g2 := func(tag string, def glyph.ID) glyph.ID {
		if full {
			return g(tag)
		}
		return def
	}
	var st gtab.Subtable
	lt := uint16(1)
	switch gsubKind {
	case 1:
		st = &gtab.Gsub1_2{Cov: coverage.Table{1: 0, 2: 1}, SubstituteGlyphIDs: []glyph.ID{g("s0"), g2("s1", 3)}}
	case 2:
		lt = 3
		st = &gtab.Gsub3_1{Cov: coverage.Table{1: 0}, Alternates: [][]glyph.ID{{g("a0"), g2("a1", 2)}}}
	case 3:
		lt = 4
		st = &gtab.Gsub4_1{Cov: coverage.Table{1: 0}, Repl: [][]gtab.Ligature{{{In: []glyph.ID{g2("in", 2)}, Out: g("out")}}}}
	}
	if st != nil {
		f.Gsub = &gtab.Info{LookupList: gtab.LookupList{{Meta: &gtab.LookupMetaInfo{LookupType: lt}, Subtables: []gtab.Subtable{st}}}}
	}
	verifMapOrder(true)
	got := f.MakeGlyphNames()
	verifReach("named")
	checkNames(orig, got, n)
	again := f.MakeGlyphNames()
	verifMapOrder(false)
	verifAssert(verifSame(got, again), "asking again returns the same names")
	f.EnsureGlyphNames()
	for i := 0; i < n; i++ {
		verifAssert(f.GlyphName(glyph.ID(i)) != "", "installed names are retrievable per glyph")
	}
	checkNames(orig, f.MakeGlyphNames(), n)
}

// VerifH_C20_ligs: several GSUB rules that generate the same base name: two ligatures for the same first
// glyph with solver-chosen components and outputs, followed by a single substitution of a glyph that may
// itself have been named by a ligature rule.
func VerifH_C20_ligs() {
	n := 5
	glyphs := glyf.Glyphs{verifSimpleGlyph(0), verifSimpleGlyph(1), verifSimpleGlyph(2), verifSimpleGlyph(3), verifSimpleGlyph(4)}
	f := verifTTFont(glyphs)
	o := f.Outlines.(*glyf.Outlines)
	orig := []string{".notdef", "A", "B", verifName("name"), verifName("name")}
	o.Names = append([]string{}, orig...)
	g := func(tag string, lo, hi glyph.ID) glyph.ID {
		x := glyph.ID(verifU16(tag))
		verifAssume(x >= lo && x <= hi)
		return x
	}
	// components among the named glyphs, results among the glyphs whose names are solver-chosen
	ligs := &gtab.Gsub4_1{Cov: coverage.Table{1: 0}, Repl: [][]gtab.Ligature{{{In: []glyph.ID{g("in", 1, 2)}, Out: g("out", 3, 4)}, {In: []glyph.ID{g("in", 1, 2)}, Out: g("out", 3, 4)}}}}
	single := &gtab.Gsub1_2{Cov: coverage.Table{g("from", 1, 4): 0}, SubstituteGlyphIDs: []glyph.ID{g("to", 3, 4)}}
	f.Gsub = &gtab.Info{LookupList: gtab.LookupList{
		{Meta: &gtab.LookupMetaInfo{LookupType: 4}, Subtables: []gtab.Subtable{ligs}},
		{Meta: &gtab.LookupMetaInfo{LookupType: 1}, Subtables: []gtab.Subtable{single}},
	}}
	got := f.MakeGlyphNames()
	verifReach("named")
	checkNames(orig, got, n)
	verifAssert(verifSame(got, f.MakeGlyphNames()), "asking again returns the same names")
}

// VerifH_C20_cff: the same rules for a CFF font: after EnsureGlyphNames every glyph reports the generated name.
func VerifH_C20_cff() {
	n := 3
	o := &cff.Outlines{Private: []*type1.PrivateDict{{}}, FDSelect: func(glyph.ID) int { return 0 }}
	orig := make([]string, n)
	for i := 0; i < n; i++ {
		orig[i] = verifName("name")
		o.Glyphs = append(o.Glyphs, &cff.Glyph{Name: orig[i], Width: 500})
	}
	f := &Font{FamilyName: "Test", UnitsPerEm: 1000, Outlines: o}
	f.CMapTable = verifCmap12([]rune{'A', 'B'}, []glyph.ID{1, 2})
	got := f.MakeGlyphNames()
	verifReach("named")
	checkNames(orig, got, n)
	f.EnsureGlyphNames()
	for i := 0; i < n; i++ {
		verifAssert(f.GlyphName(glyph.ID(i)) == got[i], "installed names are retrievable per glyph")
	}
}
