//go:build verif

package sfnt

import (
	"bytes"
	"time"

	"golang.org/x/text/language"

	"seehuhn.de/go/sfnt/glyf"
	"seehuhn.de/go/sfnt/glyph"
	"seehuhn.de/go/sfnt/opentype/coverage"
	"seehuhn.de/go/sfnt/opentype/gtab"
)

// VerifH_C16_readonly: frame argument for concurrent use.  After the font has been built, every object
// that exists (the font, everything reachable from it, package-level variables) is frozen; each operation
// of the read-only API is then executed and every store to frozen memory is an obligation.  Operations
// that only read shared memory cannot race with each other, and their results are functions of the
// shared state alone.
func VerifH_C16_readonly() {
	f := verifIslandFont16()
	verifShared(f)
	verifFreeze()
	verifReadOnlyOps(f)
	verifThaw()
	verifReach("done")
}

func verifIslandFont16() *Font {
	f := verifTTFont(glyf.Glyphs{verifSimpleGlyph(0), verifSimpleGlyph(1), verifCompositeGlyph(2, 1), nil, verifSimpleGlyph(4)})
	f.CMapTable = verifCmap12([]rune{'A', 'B', 'f'}, []glyph.ID{1, 2, 4})
	f.CreationTime = time.Unix(1000000000, 0)
	f.ModificationTime = time.Unix(1100000000, 0)
	lig := gtab.Ligature{In: []glyph.ID{2}, Out: 4}
	f.Gsub = &gtab.Info{
		ScriptList:  map[language.Tag]*gtab.Features{language.MustParse("und-Latn-x-latn"): {Required: 0xFFFF, Optional: []gtab.FeatureIndex{0}}},
		FeatureList: []*gtab.Feature{{Tag: "liga", Lookups: []gtab.LookupIndex{0}}},
		LookupList:  gtab.LookupList{{Meta: &gtab.LookupMetaInfo{LookupType: 4}, Subtables: []gtab.Subtable{&gtab.Gsub4_1{Cov: coverage.Table{1: 0}, Repl: [][]gtab.Ligature{{lig}}}}}},
	}
	// a required feature that lists its lookups out of order and twice (both are legal in a font file)
	f.Gpos = &gtab.Info{
		ScriptList:  map[language.Tag]*gtab.Features{language.MustParse("und-Zzzz"): {Required: 0, Optional: []gtab.FeatureIndex{}}},
		FeatureList: []*gtab.Feature{{Tag: "kern", Lookups: []gtab.LookupIndex{1, 0, 1}}},
		LookupList: gtab.LookupList{
			// pairs with and without a second value record in one subtable (the encoder needs a common value format)
			{Meta: &gtab.LookupMetaInfo{LookupType: 2}, Subtables: []gtab.Subtable{gtab.Gpos2_1{
				glyph.Pair{Left: 1, Right: 2}: &gtab.PairAdjust{First: &gtab.GposValueRecord{XAdvance: -40}},
				glyph.Pair{Left: 2, Right: 1}: &gtab.PairAdjust{First: &gtab.GposValueRecord{XAdvance: -10}, Second: &gtab.GposValueRecord{XPlacement: 3}},
			}}},
			{Meta: &gtab.LookupMetaInfo{LookupType: 1}, Subtables: []gtab.Subtable{&gtab.Gpos1_1{Cov: coverage.Table{4: 0}, Adjust: &gtab.GposValueRecord{XAdvance: 5}}}},
		},
	}
	// raw TrueType tables as a font reader delivers them: slices with spare capacity
	// (e.g. sub-slices of one file buffer: what follows the table in the backing array is not zero)
	buf := []byte{1, 2, 3, 4, 5, 0xAA, 0xAA, 0xAA, 0xAA, 0xAA, 0xAA, 0xAA, 0xAA, 0xAA, 0xAA, 0xAA}
	raw := buf[:5]
	f.Outlines.(*glyf.Outlines).Tables = map[string][]byte{"cvt ": raw, "prep": buf[8:10]}
	return f
}

// verifReadOnlyOps runs in its own frame: all its locals are allocated after the freeze.
func verifReadOnlyOps(f *Font) {
	switch verifChoose("op", 9) + 10*verifParam("twin", 0) - verifParam("twin", 0) {
	case 0:
		w := &bytes.Buffer{}
		n, err := f.Write(w)
		verifAssert(err == nil && n == int64(w.Len()), "Write")
	case 1:
		w := &bytes.Buffer{}
		_, err := f.WriteTrueTypePDF(w)
		verifAssert(err == nil, "WriteTrueTypePDF")
	case 2:
		list := append([]glyph.ID{0}, glyph.ID(verifU16("pick")))
		verifAssume(list[1] >= 1 && list[1] <= 4)
		sub := f.Subset(list)
		verifAssert(sub.NumGlyphs() >= 2, "Subset")
	case 3:
		c := f.Clone()
		c.FamilyName = "other" // a clone is a separate value
		verifAssert(f.FamilyName == "Test", "Clone")
	case 4:
		f.FontBBox()
		f.Widths()
		f.GlyphBBoxes()
		f.IsFixedPitch()
		f.NumGlyphs()
	case 5:
		names := f.MakeGlyphNames()
		names[1] = "scribble" // the returned slice belongs to the caller
	case 6:
		info := f.GetFontInfo()
		info.FontName = "x"
	case 7:
		l, err := f.NewLayouter(language.MustParse("en"), nil, nil)
		verifAssert(err == nil, "NewLayouter")
		if err == nil {
			seq := l.Layout("ABf")
			seq2 := l.Layout("BA")
			_, _ = seq, seq2
		}
	case 9:
		// twin (only reachable with param twin=1): a deliberate write to the shared font must be flagged
		f.Ascent = 1
	default:
		seq := []glyph.Info{{GID: 1, Text: []rune{'A'}}, {GID: 2, Text: []rune{'B'}}}
		out := gtab.NewContext(f.Gsub.LookupList, nil, []gtab.LookupIndex{0}).Apply(seq)
		verifAssert(len(out) == 1 && out[0].GID == 4, "Apply on a shared lookup list")
	}
}
