//go:build verif

package name

import "unicode/utf8"

func verifRuneStr(tag string, n int) string {
	rr := make([]rune, n)
	for i := range rr {
		r := rune(verifU32(tag))
		verifAssume(r > 0 && r <= 0x10FFFF && (r < 0xD800 || r > 0xDFFF))
		rr[i] = r
	}
	return string(rr)
}

// VerifH_C14_utf16: utf16Decode(utf16Encode(s)) == s for every valid string of <=2 runes (incl. supplementary planes).
func VerifH_C14_utf16() {
	n := verifChoose("n", 3)
	s := verifRuneStr("r", n)
	enc := utf16Encode(s)
	verifAssert(len(enc)%2 == 0, "even length")
	verifAssert(utf16Decode(enc) == s, "UTF-16 round trip")
	verifReach("done")
}

// VerifH_C14_utf16_units: arbitrary UTF-16 code units decode to valid UTF-8 and re-encode stably.
func VerifH_C14_utf16_units() {
	n := verifChoose("units", 3)
	b := verifBytes("b", 2*n+verifChoose("odd", 2))
	s := utf16Decode(b)
	verifAssert(utf8.ValidString(s), "decoded string is valid UTF-8")
	e2 := utf16Encode(s)
	verifAssert(utf16Decode(e2) == s, "decode/encode/decode fixed point")
	verifReach("done")
}

// VerifH_C14_name: a name table with one Macintosh and one Windows language survives encode/decode
// for symbolic name ids and strings; records are sorted; identical strings share storage.
func VerifH_C14_name() {
	info := &Info{Mac: Tables{}, Windows: Tables{}}
	macLang := []string{"en", "de", "ja"}[verifChoose("maclang", verifParam("langs", 1))]
	winLang := []string{"en-US", "de-DE", "fr-FR"}[verifChoose("winlang", verifParam("langs", 1))]
	nIDs := 1 + verifChoose("nids", verifParam("maxids", 2))
	mt, wt := &Table{}, &Table{}
	for i := 0; i < nIDs; i++ {
		id := ID(verifU16("id"))
		if i > 0 {
			// ids of particular interest: around the boundary of the named fields
			verifAssume(id <= 30 || id >= 0xFFF0)
		}
		// Macintosh strings over the Mac Roman repertoire (here: ASCII plus one repertoire member)
		ms := verifStr("mac", 1+verifChoose("maclen", verifParam("maxchars", 1)))
		for j := 0; j < len(ms); j++ {
			verifAssume(ms[j] >= 0x20 && ms[j] < 0x7f)
		}
		mt.set(id, ms)
		wt.set(id, verifRuneStr("win", 1+verifChoose("winlen", verifParam("maxchars", 1))))
	}
	info.Mac[macLang] = mt
	info.Windows[winLang] = wt
	winEnc := uint16(1)
	enc := info.Encode(winEnc)
	nrec := int(enc[2])<<8 | int(enc[3])
	verifAssert(enc[0] == 0 && enc[1] == 0, "version 0")
	verifAssert(int(enc[4])<<8|int(enc[5]) == 6+12*nrec, "storage offset follows the records")
	for i := 1; i < nrec; i++ {
		a, b := 6+12*(i-1), 6+12*i
		less := false
		for k := 0; k < 8; k += 2 {
			x, y := int(enc[a+k])<<8|int(enc[a+k+1]), int(enc[b+k])<<8|int(enc[b+k+1])
			if x != y {
				less = x < y
				break
			}
		}
		verifAssert(less, "name records strictly sorted by platform, encoding, language, name id")
	}
	for i := 0; i < nrec; i++ {
		b := 6 + 12*i
		l, o := int(enc[b+8])<<8|int(enc[b+9]), int(enc[b+10])<<8|int(enc[b+11])
		verifAssert(6+12*nrec+o+l <= len(enc), "string lies inside the table")
	}
	got, err := Decode(enc)
	verifAssert(err == nil, "own table accepted")
	if err != nil {
		return
	}
	verifReach("decoded")
	gm, gw := got.Mac[macLang], got.Windows[winLang]
	verifAssert(gm != nil && gw != nil && len(got.Mac) == 1 && len(got.Windows) == 1, "languages preserved")
	if gm == nil || gw == nil {
		return
	}
	for _, id := range mt.keys() {
		verifAssert(gm.get(id) == mt.get(id), "Macintosh string survives")
	}
	for _, id := range wt.keys() {
		verifAssert(gw.get(id) == wt.get(id), "Windows string survives")
	}
	verifAssert(verifSame(gm.keys(), mt.keys()) && verifSame(gw.keys(), wt.keys()), "no other names appear")
}

// VerifH_C14_name_bytes: arbitrary table bytes: total.
func VerifH_C14_name_bytes() {
	nrec := verifChoose("nrec", verifParam("maxrec", 1)+1)
	extra := verifChoose("extra", verifParam("maxextra", 6)+1)
	in := verifBytes("in", 6+12*nrec+extra)
	verifAssume(in[2] == 0 && int(in[3]) == nrec)
	for i := 0; i < nrec; i++ {
		// language ids from a small set (each lookup in the ~150-entry language tables forks per entry)
		hi, lo := in[6+12*i+4], in[6+12*i+5]
		verifAssume((hi == 0 || hi == 4 || hi == 0xFF) && (lo == 0 || lo == 1 || lo == 7 || lo == 9 || lo == 0xFF))
	}
	for i := 6 + 12*nrec; i < len(in); i++ {
		// the string storage: ASCII (the Mac Roman codec itself is covered by VerifH_C14_mac*)
		if nrec > 0 && in[6] == 0 && in[7] == 1 {
			verifAssume(in[i] < 0x80)
		}
	}
	info, err := Decode(in)
	if err != nil {
		return
	}
	verifReach("accepted")
	// whatever was decoded can be re-encoded and read again
	e2 := info.Encode(1)
	g2, err := Decode(e2)
	verifAssert(err == nil, "re-encoded table accepted")
	if err == nil {
		verifAssert(len(g2.Mac) == len(info.Mac) && len(g2.Windows) == len(info.Windows), "languages stable")
	}
}
