//go:build verif

package glyf

import (
	"seehuhn.de/go/postscript/funit"
	"seehuhn.de/go/sfnt/glyph"
)

// ---------------------------------------------------------------------------------------------
// Reference decoder for simple glyph descriptions, written from the TrueType/OpenType "glyf"
// specification (independent of simple.go).

type refPoint struct {
	x, y int
	on   bool
}

// refSimple decodes the body of a simple glyph (everything after the 10 byte header).
// ok=false means the data is not a complete simple glyph description.
func refSimple(nc int, d []byte) (contours [][]refPoint, instr []byte, ok bool) {
	p := 0
	u16 := func() (int, bool) {
		if p+2 > len(d) {
			return 0, false
		}
		v := int(d[p])<<8 | int(d[p+1])
		p += 2
		return v, true
	}
	ends := make([]int, nc)
	for i := 0; i < nc; i++ {
		v, k := u16()
		if !k {
			return nil, nil, false
		}
		if i > 0 && v < ends[i-1] {
			return nil, nil, false // end points must be in increasing order
		}
		ends[i] = v
	}
	np := 0
	if nc > 0 {
		np = ends[nc-1] + 1
	}
	il, k := u16()
	if !k || p+il > len(d) {
		return nil, nil, false
	}
	instr = d[p : p+il]
	p += il
	flags := make([]byte, 0, np)
	for len(flags) < np {
		if p >= len(d) {
			return nil, nil, false
		}
		f := d[p]
		p++
		rep := 1
		if f&8 != 0 {
			if p >= len(d) {
				return nil, nil, false
			}
			rep += int(d[p])
			p++
		}
		if len(flags)+rep > np {
			return nil, nil, false // repeat runs past the last point
		}
		for ; rep > 0; rep-- {
			flags = append(flags, f)
		}
	}
	coords := func(shortBit, sameBit byte) ([]int, bool) {
		res := make([]int, np)
		v := 0
		for i, f := range flags {
			switch {
			case f&shortBit != 0:
				if p >= len(d) {
					return nil, false
				}
				dv := int(d[p])
				p++
				if f&sameBit != 0 {
					v += dv
				} else {
					v -= dv
				}
			case f&sameBit == 0:
				if p+2 > len(d) {
					return nil, false
				}
				v += int(int16(uint16(d[p])<<8 | uint16(d[p+1])))
				p += 2
			}
			res[i] = v
		}
		return res, true
	}
	xs, k := coords(2, 16)
	if !k {
		return nil, nil, false
	}
	ys, k := coords(4, 32)
	if !k {
		return nil, nil, false
	}
	start := 0
	for i := 0; i < nc; i++ {
		var c []refPoint
		for j := start; j <= ends[i]; j++ {
			c = append(c, refPoint{xs[j], ys[j], flags[j]&1 != 0})
		}
		contours = append(contours, c)
		start = ends[i] + 1
	}
	return contours, instr, true
}

// VerifH_C11_spec: SimpleGlyph.Decode (after removePadding, i.e. exactly what glyf.Decode delivers)
// agrees with the reference decoder: same accept/reject, same points, same instructions.
func VerifH_C11_spec() {
	nc := verifChoose("nc", 4)
	extra := verifChoose("extra", verifParam("maxextra", 5)+1)
	if nc == 3 {
		// three contours: the end point array already takes 6 bytes; keep the rest short
		verifAssume(extra <= verifParam("maxextra3", 3))
	}
	n := 2*nc + 2 + extra
	enc := verifBytes("enc", n)
	maxPts := verifParam("maxpts", 4)
	if nc > 0 {
		// bound the number of points (the decoder materialises them)
		verifAssume(int(enc[2*nc-2])<<8|int(enc[2*nc-1]) < maxPts)
	}
	verifAssume(int(enc[2*nc])<<8|int(enc[2*nc+1]) <= 2) // instruction length
	g := &SimpleGlyph{NumContours: int16(nc), Encoded: enc}
	want, wantInstr, ok := refSimple(nc, enc)
	err := g.removePadding()
	var info *GlyphInfo
	if err == nil {
		info, err = g.Decode()
	}
	verifAssert((err == nil) == ok, "accept/reject agrees with the specification")
	if !ok || err != nil {
		return
	}
	verifReach("accepted")
	verifAssert(len(info.Contours) == len(want), "number of contours")
	verifAssert(verifSame(info.Instructions, wantInstr), "instructions")
	inRange := true
	same := true
	for i := range want {
		if len(info.Contours[i]) != len(want[i]) {
			verifAssert(false, "contour length")
			return
		}
		for j, p := range want[i] {
			if p.x < -32768 || p.x > 32767 || p.y < -32768 || p.y > 32767 {
				inRange = false
			}
			q := info.Contours[i][j]
			if int(q.X) != p.x || int(q.Y) != p.y || q.OnCurve != p.on {
				same = false
			}
		}
		if len(want[i]) > 0 {
			verifReach("points")
		}
	}
	// coordinates outside int16 are outside what the format defines
	verifAssert(!inRange || same, "points agree with the specification")
}

// ---------------------------------------------------------------------------------------------

func verifSimpleGlyph(tag string, maxBody int) *Glyph {
	nc := verifChoose(tag+".nc", 2)
	extra := verifChoose(tag+".extra", maxBody+1)
	enc := verifBytes(tag+".enc", 2*nc+2+extra)
	g := SimpleGlyph{NumContours: int16(nc), Encoded: enc}
	// the value domain of SimpleGlyph: Encoded holds a complete description without padding
	before := len(g.Encoded)
	verifAssume(g.removePadding() == nil)
	verifAssume(len(g.Encoded) == before)
	return &Glyph{Rect16: verifRect(tag), Data: g}
}

func verifRect(tag string) funit.Rect16 {
	return funit.Rect16{LLx: funit.Int16(verifI16(tag + ".llx")), LLy: funit.Int16(verifI16(tag + ".lly")),
		URx: funit.Int16(verifI16(tag + ".urx")), URy: funit.Int16(verifI16(tag + ".ury"))}
}

func compArgLen(f ComponentFlag) int {
	n := 2
	if f&FlagArg1And2AreWords != 0 {
		n = 4
	}
	switch {
	case f&FlagWeHaveAScale != 0:
		n += 2
	case f&FlagWeHaveAnXAndYScale != 0:
		n += 4
	case f&FlagWeHaveATwoByTwo != 0:
		n += 8
	}
	return n
}

// verifCompositeGlyph builds a composite glyph with ncomp components whose flags are symbolic
// (so every argument/transform size and the instruction bit are covered).
func verifCompositeGlyph(tag string, ncomp int, maxInstr int) *Glyph {
	cg := CompositeGlyph{}
	haveInstr := false
	for i := 0; i < ncomp; i++ {
		f := ComponentFlag(verifU16(tag + ".flags"))
		// MORE_COMPONENTS must be set on all but the last component (value domain)
		verifAssume((f&FlagMoreComponents != 0) == (i < ncomp-1))
		if f&FlagWeHaveInstructions != 0 {
			haveInstr = true
		}
		// the size of the argument data is determined by the flags: fork over the 8 possible sizes
		sz := 2 + 2*verifChoose(tag+".argsz", 6)
		verifAssume(compArgLen(f) == sz)
		cg.Components = append(cg.Components, GlyphComponent{Flags: f, GlyphIndex: glyph.ID(verifU16(tag + ".gid")), Data: verifBytes(tag+".args", sz)})
	}
	if haveInstr {
		cg.Instructions = verifBytes(tag+".instr", verifChoose(tag+".ilen", maxInstr+1))
		if cg.Instructions == nil {
			cg.Instructions = []byte{}
		}
	}
	return &Glyph{Rect16: verifRect(tag), Data: cg}
}

func verifAnyGlyph(tag string, body int) *Glyph {
	switch verifChoose(tag+".kind", 3+verifParam("twocomp", 0)) {
	case 0:
		return nil
	case 1:
		return verifSimpleGlyph(tag, body)
	case 2:
		return verifCompositeGlyph(tag, 1, 2)
	default:
		return verifCompositeGlyph(tag, 2, 1)
	}
}

func sameGlyph(a, b *Glyph) bool {
	if a == nil || b == nil {
		return a == nil && b == nil
	}
	if a.Rect16 != b.Rect16 {
		return false
	}
	switch x := a.Data.(type) {
	case SimpleGlyph:
		y, ok := b.Data.(SimpleGlyph)
		return ok && x.NumContours == y.NumContours && verifSame(x.Encoded, y.Encoded)
	case CompositeGlyph:
		y, ok := b.Data.(CompositeGlyph)
		if !ok || len(x.Components) != len(y.Components) {
			return false
		}
		return verifSame(x.Components, y.Components) && verifSame(x.Instructions, y.Instructions) &&
			(x.Instructions == nil) == (y.Instructions == nil)
	}
	return false
}

// checkLoca asserts the loca invariants of the property.
func checkLoca(enc *Encoded, n int) {
	var offs []int
	switch enc.LocaFormat {
	case 0:
		verifAssert(len(enc.LocaData) == 2*(n+1), "short loca has n+1 entries")
		for i := 0; i <= n; i++ {
			offs = append(offs, 2*(int(enc.LocaData[2*i])<<8|int(enc.LocaData[2*i+1])))
		}
	case 1:
		verifAssert(len(enc.LocaData) == 4*(n+1), "long loca has n+1 entries")
		for i := 0; i <= n; i++ {
			offs = append(offs, int(enc.LocaData[4*i])<<24|int(enc.LocaData[4*i+1])<<16|int(enc.LocaData[4*i+2])<<8|int(enc.LocaData[4*i+3]))
		}
	default:
		verifAssert(false, "loca format is 0 or 1")
		return
	}
	verifAssert(offs[0] == 0, "first offset is 0")
	for i := 1; i <= n; i++ {
		verifAssert(offs[i] >= offs[i-1], "loca offsets non-decreasing")
		verifAssert(offs[i]%2 == 0, "loca offsets even")
	}
	verifAssert(offs[n] == len(enc.GlyfData), "last offset is the glyf length")
}

// VerifH_C11_roundtrip: Decode(Encode(gg)) == gg for glyph sets mixing nil, simple and composite glyphs.
func VerifH_C11_roundtrip() {
	n := 1 + verifChoose("n", verifParam("maxglyphs", 2))
	body := verifParam("body", 3)
	gg := make(Glyphs, n)
	for i := range gg {
		gg[i] = verifAnyGlyph("g", body)
	}
	enc := gg.Encode()
	checkLoca(enc, n)
	got, err := Decode(enc)
	verifAssert(err == nil, "own output is accepted")
	if err != nil {
		return
	}
	verifReach("decoded")
	verifAssert(len(got) == n, "glyph count")
	for i := range gg {
		verifAssert(sameGlyph(gg[i], got[i]), "glyph round-trips bit for bit")
	}
}

// VerifH_C11_composite2: a composite glyph with two or three components (flags, argument sizes, ids and
// instructions symbolic; WE_HAVE_INSTRUCTIONS on any component) followed by a simple glyph round-trips.
func VerifH_C11_composite2() {
	nc := 2 + verifChoose("ncomp", 2)
	cg := CompositeGlyph{}
	haveInstr := false
	for i := 0; i < nc; i++ {
		// the instruction flag, the argument width and the rounding / metrics bits are symbolic; no transform
		f := ComponentFlag(verifU16("c.flags")) & (FlagArgsAreXYValues | FlagUseMyMetrics)
		if i < nc-1 {
			f |= FlagMoreComponents
		}
		if verifChoose("c.instr", 2) == 1 {
			f |= FlagWeHaveInstructions
			haveInstr = true
		}
		sz := 2
		if verifChoose("c.words", 2) == 1 {
			f |= FlagArg1And2AreWords
			sz = 4
		}
		cg.Components = append(cg.Components, GlyphComponent{Flags: f, GlyphIndex: glyph.ID(verifU16("c.gid")), Data: verifBytes("c.args", sz)})
	}
	if haveInstr {
		cg.Instructions = append([]byte{}, verifBytes("c.instr", verifChoose("c.ilen", 4))...)
	}
	gg := Glyphs{&Glyph{Rect16: verifRect("c"), Data: cg}, {Rect16: funit.Rect16{URx: 5, URy: 10}, Data: SimpleGlyph{NumContours: 1, Encoded: []byte{0, 0, 0, 0, 0x37, 5, 10}}}}
	enc := gg.Encode()
	checkLoca(enc, len(gg))
	got, err := Decode(enc)
	verifAssert(err == nil, "own output is accepted")
	if err != nil {
		return
	}
	verifReach("decoded")
	verifAssert(len(got) == len(gg), "glyph count")
	for i := range gg {
		verifAssert(sameGlyph(gg[i], got[i]), "glyph round-trips bit for bit")
	}
}

// VerifH_C11_fixpoint: for arbitrary bytes accepted by Decode, decode -> encode -> decode is a fixed point
// and the re-encoded table is stable.
func VerifH_C11_fixpoint() {
	long := verifChoose("locafmt", 2)
	body := verifParam("bytes", 16)
	n := verifChoose("len", body/2+1) * 2
	glyf := verifBytes("glyf", n)
	enc := &Encoded{GlyfData: glyf, LocaFormat: int16(long)}
	// two glyphs: [0,k) and [k,n)
	k := verifChoose("split", n/2+1) * 2
	if long == 0 {
		enc.LocaData = []byte{0, 0, byte(k >> 9), byte(k >> 1), byte(n >> 9), byte(n >> 1)}
	} else {
		enc.LocaData = []byte{0, 0, 0, 0, 0, 0, byte(k >> 8), byte(k), 0, 0, byte(n >> 8), byte(n)}
	}
	// keep point counts small: numContours of a simple glyph at most 1 and its end point < 4
	for _, off := range []int{0, k} {
		end := n
		if off == 0 {
			end = k
		}
		if end-off >= 14 {
			verifAssume(glyf[off] >= 0x80 || (glyf[off] == 0 && glyf[off+1] <= 1 && (glyf[off+1] == 0 || (glyf[off+10] == 0 && glyf[off+11] < 3))))
		} else if end-off >= 10 {
			verifAssume(glyf[off] >= 0x80 || (glyf[off] == 0 && glyf[off+1] == 0))
		}
	}
	g1, err := Decode(enc)
	if err != nil {
		return
	}
	verifReach("accepted")
	// the lazy decoder must be total on what Decode delivered
	for _, g := range g1 {
		if g != nil {
			if s, ok := g.Data.(SimpleGlyph); ok {
				s.Decode()
				verifReach("simple")
			} else {
				verifReach("composite")
			}
			g.Components()
		}
	}
	e2 := g1.Encode()
	checkLoca(e2, len(g1))
	g2, err := Decode(e2)
	verifAssert(err == nil, "re-encoded data is accepted")
	if err != nil {
		return
	}
	verifAssert(len(g1) == len(g2), "glyph count stable")
	for i := range g1 {
		verifAssert(sameGlyph(g1[i], g2[i]), "decode/encode/decode is a fixed point")
	}
	e3 := g2.Encode()
	verifAssert(verifSame(e2.GlyfData, e3.GlyfData) && verifSame(e2.LocaData, e3.LocaData) && e2.LocaFormat == e3.LocaFormat, "second write is byte-identical")
}

// VerifH_C11_components: Components() lists the component ids in order; FixComponents rewrites exactly the ids.
func VerifH_C11_components() {
	nc := 1 + verifChoose("ncomp", 2)
	g := verifCompositeGlyph("c", nc, 1)
	ids := g.Components()
	cg := g.Data.(CompositeGlyph)
	verifAssert(len(ids) == nc, "one id per component")
	for i := range ids {
		verifAssert(ids[i] == cg.Components[i].GlyphIndex, "component ids in order")
	}
	m := map[glyph.ID]glyph.ID{}
	for _, id := range ids {
		m[id] = glyph.ID(verifU16("new"))
	}
	g2 := g.FixComponents(m)
	verifReach("fixed")
	cg2 := g2.Data.(CompositeGlyph)
	verifAssert(g2.Rect16 == g.Rect16 && len(cg2.Components) == nc, "shape preserved")
	for i := range cg2.Components {
		verifAssert(cg2.Components[i].GlyphIndex == m[cg.Components[i].GlyphIndex], "id remapped")
		verifAssert(cg2.Components[i].Flags == cg.Components[i].Flags && verifSame(cg2.Components[i].Data, cg.Components[i].Data), "flags and arguments untouched")
	}
	verifAssert(verifSame(cg2.Instructions, cg.Instructions), "instructions untouched")
	// the original is not modified
	for i := range ids {
		verifAssert(cg.Components[i].GlyphIndex == ids[i], "original glyph unchanged")
	}
	var nilg *Glyph
	verifAssert(nilg.Components() == nil && nilg.FixComponents(m) == nil, "nil glyph")
}

// VerifH_C11_loca: encodeLoca/decodeLoca on arbitrary even offsets (the glyph sizes are symbolic, the glyph
// data itself is not materialised): format choice, monotonicity and round trip across the 64K/128K thresholds.
func VerifH_C11_loca() {
	n := 1 + verifChoose("n", 3)
	offs := make([]int, n+1)
	for i := 1; i <= n; i++ {
		d := int(verifU32("size"))
		verifAssume(d <= 200000 && d%2 == 0)
		offs[i] = offs[i-1] + d
	}
	data, format := encodeLoca(offs)
	total := offs[n]
	if total > 0xffff {
		verifReach("long")
		verifAssert(format == 1, "long format above 64K-1")
	} else {
		verifReach("short")
		verifAssert(format == 0, "short format when it fits")
	}
	// decodeLoca looks at len(GlyfData) only: a length-only slice of exactly that length
	glyf := verifBytesLenOnly("glyflen", 600000)
	verifAssume(len(glyf) == total)
	got, err := decodeLoca(&Encoded{LocaData: data, LocaFormat: format, GlyfData: glyf})
	verifAssert(err == nil, "own loca accepted")
	if err == nil {
		verifAssert(verifSame(got, offs), "loca round trip")
	}
}
