//go:build verif

package glyf

func VerifH_simple_nopanic() {
	n := 4 + verifChoose("len", 4)
	g := &SimpleGlyph{NumContours: verifI16("nc"), Encoded: verifBytes("enc", n)}
	verifAssume(g.NumContours >= 0 && g.NumContours <= 2)
	if g.NumContours == 0 {
		verifClass("numContours=0")
	}
	if g.removePadding() != nil {
		return
	}
	verifReach("accepted")
	info, err := g.Decode()
	if err == nil {
		verifReach("decoded")
		verifAssert(len(info.Contours) == int(g.NumContours), "contour count")
	}
}
