//go:build verif

package glyf

import (
	"seehuhn.de/go/geom/matrix"
	"seehuhn.de/go/postscript/funit"
)

// VerifH_C12_bboxpdf: the PDF-space bounding box of a glyph is the smallest axis-parallel rectangle containing
// the image of its font-unit box under the font matrix, for scaling, left / right shear, mirroring and
// rotation matrices (dyadic entries) and symbolic box coordinates.
func VerifH_C12_bboxpdf() {
	q := 1.0 / 1024
	ms := []matrix.Matrix{
		{q, 0, 0, q, 0, 0},          // upright
		{q, 0, q / 4, q, 0, 0},      // slanted to the right
		{q, 0, -q / 4, q, 0, 0},     // slanted to the left
		{0, q, -q, 0, 0, 0},         // rotated by 90 degrees
		{-q, 0, 0, q, 0, 0},         // mirrored
		{q, q / 2, q / 8, q, 8, -4}, // general, with translation
	}
	fm := ms[verifChoose("matrix", len(ms))]
	c := func(tag string) funit.Int16 {
		v := verifI16(tag)
		verifAssume(v >= -30 && v <= 30)
		return funit.Int16(v)
	}
	g := &Glyph{Rect16: funit.Rect16{LLx: c("llx"), LLy: c("lly"), URx: c("urx"), URy: c("ury")}, Data: SimpleGlyph{}}
	verifAssume(g.LLx <= g.URx && g.LLy <= g.URy)
	o := &Outlines{Glyphs: Glyphs{g}}
	got := o.GlyphBBoxPDF(fm, 0)
	verifReach("done")
	M := fm.Mul(matrix.Scale(1000, 1000))
	attLx, attUx, attLy, attUy := false, false, false, false
	for _, p := range [][2]funit.Int16{{g.LLx, g.LLy}, {g.URx, g.LLy}, {g.URx, g.URy}, {g.LLx, g.URy}} {
		x, y := M.Apply(float64(p[0]), float64(p[1]))
		verifAssert(x >= got.LLx && x <= got.URx && y >= got.LLy && y <= got.URy, "every corner of the transformed box lies inside the reported box")
		attLx = attLx || x == got.LLx
		attUx = attUx || x == got.URx
		attLy = attLy || y == got.LLy
		attUy = attUy || y == got.URy
	}
	verifAssert(attLx && attUx && attLy && attUy, "the reported box is the smallest one (every side touches a corner)")
}
