//go:build verif

package hmtx

import (
	"seehuhn.de/go/postscript/funit"
)

func hw16(b []byte, off int) int16 { return int16(uint16(b[off])<<8 | uint16(b[off+1])) }

// VerifH_C12_hmtx: widths and side bearings survive however the constant tail is compressed;
// numberOfHMetrics is minimal; the derived hhea fields equal their definitions.
func VerifH_C12_hmtx() {
	n := 1 + verifChoose("glyphs", verifParam("maxglyphs", 4))
	info := &Info{
		Ascent: funit.Int16(verifI16("ascent")), Descent: funit.Int16(verifI16("descent")), LineGap: funit.Int16(verifI16("linegap")),
		CaretOffset: funit.Int16(verifI16("caretoffset")),
	}
	for i := 0; i < n; i++ {
		info.Widths = append(info.Widths, funit.Int16(verifI16("width")))
		info.GlyphExtents = append(info.GlyphExtents, funit.Rect16{LLx: funit.Int16(verifI16("llx")), LLy: funit.Int16(verifI16("lly")), URx: funit.Int16(verifI16("urx")), URy: funit.Int16(verifI16("ury"))})
	}
	explicitLSB := verifChoose("lsb", 2) == 1
	if explicitLSB {
		for i := 0; i < n; i++ {
			info.LSB = append(info.LSB, funit.Int16(verifI16("lsb")))
		}
	}
	hhea, hmtx := info.Encode()
	verifAssert(len(hhea) == 36, "hhea is 36 bytes")
	numLong := int(uint16(hw16(hhea, 34)))
	verifAssert(numLong >= 1 && numLong <= n, "numberOfHMetrics in range")
	verifAssert(len(hmtx) == 4*numLong+2*(n-numLong), "hmtx length")
	// minimality: the last long metric differs from its predecessor (or there is only one)
	if numLong > 1 {
		verifAssert(info.Widths[numLong-1] != info.Widths[numLong-2], "numberOfHMetrics is minimal")
		verifReach("compressed or not")
	}
	for i := numLong; i < n; i++ {
		verifAssert(info.Widths[i] == info.Widths[numLong-1], "dropped widths equal the last long metric")
	}
	// derived fields (definitions of the hhea specification, over glyphs with contours, with lsb = xMin)
	var awMax funit.Int16
	for _, w := range info.Widths {
		if w > awMax {
			awMax = w
		}
	}
	verifAssert(funit.Int16(hw16(hhea, 10)) == awMax, "advanceWidthMax")
	if !explicitLSB {
		first := true
		var minLSB, minRSB, maxExt funit.Int16
		for i, e := range info.GlyphExtents {
			if e.LLx == 0 && e.LLy == 0 && e.URx == 0 && e.URy == 0 {
				continue
			}
			lsb := e.LLx
			rsb := info.Widths[i] - (lsb + e.URx - e.LLx)
			ext := lsb + (e.URx - e.LLx)
			if first || lsb < minLSB {
				minLSB = lsb
			}
			if first || rsb < minRSB {
				minRSB = rsb
			}
			if first || ext > maxExt {
				maxExt = ext
			}
			first = false
		}
		verifAssert(funit.Int16(hw16(hhea, 12)) == minLSB, "minLeftSideBearing")
		verifAssert(funit.Int16(hw16(hhea, 14)) == minRSB, "minRightSideBearing")
		verifAssert(funit.Int16(hw16(hhea, 16)) == maxExt, "xMaxExtent")
	}
	got, err := Decode(hhea, hmtx)
	verifAssert(err == nil, "own tables accepted")
	if err != nil {
		return
	}
	verifReach("decoded")
	verifAssert(verifSame(got.Widths, info.Widths), "widths round-trip")
	if explicitLSB {
		verifAssert(verifSame(got.LSB, info.LSB), "left side bearings round-trip")
	} else {
		for i := range got.LSB {
			verifAssert(got.LSB[i] == info.GlyphExtents[i].LLx, "left side bearings are xMin")
		}
	}
	verifAssert(got.Ascent == info.Ascent && got.Descent == info.Descent && got.LineGap == info.LineGap && got.CaretOffset == info.CaretOffset, "vertical metrics round-trip")
	verifAssert(got.CaretAngle == 0, "vertical caret")
}

// VerifH_C12_hmtx_bytes: arbitrary hhea/hmtx bytes: total; decode -> encode -> decode is a fixed point.
func VerifH_C12_hmtx_bytes() {
	hhea := verifBytes("hhea", 36)
	// caret slope rise/run go through Atan2/Sin/Cos (outside the solver fragment): vertical caret only
	verifAssume(hw16(hhea, 18) == 1 && hw16(hhea, 20) == 0)
	k := verifChoose("hmtxlen", verifParam("maxhmtx", 8)+1)
	hmtx := verifBytes("hmtx", k)
	verifAssume(uint16(hw16(hhea, 34)) <= 4)
	g1, err := Decode(hhea, hmtx)
	if err != nil {
		return
	}
	verifReach("accepted")
	if len(g1.Widths) == 0 {
		return
	}
	h2, m2 := g1.Encode()
	g2, err := Decode(h2, m2)
	verifAssert(err == nil, "re-encoded tables accepted")
	if err != nil {
		return
	}
	verifAssert(verifSame(g1.Widths, g2.Widths) && verifSame(g1.LSB, g2.LSB), "fixed point: metrics")
	verifAssert(g1.Ascent == g2.Ascent && g1.Descent == g2.Descent && g1.LineGap == g2.LineGap && g1.CaretOffset == g2.CaretOffset, "fixed point: header")
	h3, m3 := g2.Encode()
	verifAssert(verifSame(h2, h3) && verifSame(m2, m3), "second write byte-identical")
}
