//go:build verif

package cmap

// VerifH_C02_cmap: cmap.Decode on arbitrary bytes, then Get on every key and a lookup: total.
func VerifH_C02_cmap() {
	nt := verifChoose("ntables", verifParam("maxtables", 1)+1)
	body := verifChoose("body", verifParam("maxbody", 3)+1) * 4
	in := verifBytes("in", 4+8*nt+10+body)
	verifAssume(in[2] == 0 && int(in[3]) <= nt)
	// offsets within the first 64K (the table is tiny)
	for i := 0; i < nt; i++ {
		verifAssume(in[8+8*i] == 0 && in[9+8*i] == 0 && in[10+8*i] == 0)
	}
	t, err := Decode(in)
	if err != nil {
		return
	}
	verifReach("accepted")
	for key, data := range t {
		verifAssert(len(data) >= 10, "subtables are at least 10 bytes")
		// keep the materialising decoders small
		if data[0] == 0 && (data[1] == 4 || data[1] == 6 || data[1] == 12) {
			verifAssume(len(data) <= 26)
		}
		sub, err := t.Get(key)
		if err == nil {
			verifReach("subtable")
			sub.Lookup(rune(verifU32("c")))
			sub.CodeRange()
		}
	}
	t.GetBest()
	t.GetNoLang(3, 1)
}
