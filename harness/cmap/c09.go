//go:build verif

package cmap

import (
	"seehuhn.de/go/sfnt/glyph"
)

func w16(b []byte, off int) uint16 { return uint16(b[off])<<8 | uint16(b[off+1]) }
func w32(b []byte, off int) uint32 {
	return uint32(b[off])<<24 | uint32(b[off+1])<<16 | uint32(b[off+2])<<8 | uint32(b[off+3])
}

// refF4 is the format 4 lookup procedure of the OpenType specification ("cmap", format 4):
// find the first segment whose endCode >= c; if its startCode <= c, then
//   idRangeOffset == 0:  glyph = (c + idDelta) mod 65536
//   otherwise:           g = *(&idRangeOffset[i] + idRangeOffset[i]/2 + (c - startCode[i])); glyph = g==0 ? 0 : (g + idDelta) mod 65536
// defined=false if the addressed word lies outside the subtable.
func refF4(in []byte, c uint16) (g glyph.ID, defined bool) {
	segCount := int(w16(in, 6)) / 2
	word := func(i int) uint16 { return w16(in, 14+2*i) }
	for k := 0; k < segCount; k++ {
		end := word(k)
		if end < c {
			continue
		}
		start := word(segCount + 1 + k)
		if start > c {
			return 0, true
		}
		delta := word(2*segCount + 1 + k)
		ro := word(3*segCount + 1 + k)
		if ro == 0 {
			return glyph.ID(c + delta), true
		}
		idx := 3*segCount + 1 + k + int(ro)/2 + int(c-start)
		if 14+2*idx+1 >= len(in) {
			return 0, false
		}
		v := word(idx)
		if v != 0 {
			v += delta
		}
		return glyph.ID(v), true
	}
	return 0, true
}

// VerifH_C09_f4dec: decodeFormat4 on arbitrary 2-segment subtables agrees with the specification for every code.
func VerifH_C09_f4dec() {
	const segCount = 2
	ng := verifChoose("nglyphwords", verifParam("maxarray", 2)+1)
	in := verifBytes("in", 16+8*segCount+2*ng)
	verifAssume(in[6] == 0 && in[7] == 2*segCount)
	word := func(i int) uint16 { return w16(in, 14+2*i) }
	span := uint16(verifParam("span", 1))
	// small spans (the decoder materialises the map); last segment ends at 0xFFFF as the format requires
	verifAssume(word(0) >= word(3) && word(0)-word(3) <= span)
	verifAssume(word(1) >= word(4) && word(1)-word(4) <= span)
	verifAssume(word(1) == 0xFFFF)
	verifAssume(word(7)&1 == 0 && word(8)&1 == 0) // idRangeOffset values are byte offsets to 16-bit words
	s, err := decodeFormat4(in, nil)
	if err != nil {
		return
	}
	verifReach("accepted")
	c := verifU16("c")
	want, defined := refF4(in, c)
	verifAssume(defined)
	// the specification leaves the 0xFFFF terminator segment with a dangling idRangeOffset to implementations
	got := s.Lookup(rune(c))
	if word(7) != 0 || word(8) != 0 {
		verifReach("via glyphIdArray")
	}
	verifAssert(got == want, "lookup agrees with the specification")
}

// ---- encoder ----

func verifF4Map(n int, base uint16, width uint16) Format4 {
	m := Format4{}
	for i := 0; i < n; i++ {
		k := verifU16("key")
		verifAssume(k >= base && k-base < width)
		g := glyph.ID(verifU16("gid"))
		verifAssume(g != 0)
		m[k] = g
	}
	return m
}

// VerifH_C09_f4enc: decode(encode(m)) and the specification's lookup both give m[c] for every code c;
// header fields equal their definitions.
func VerifH_C09_f4enc() {
	n := 1 + verifChoose("entries", verifParam("maxentries", 2))
	var base uint16 = 0xFFF8
	if verifParam("lowwindow", 0) != 0 {
		base = 0
	}
	m := verifF4Map(n, base, 8)
	lang := verifU16("lang")
	verifUnwind(70000)
	enc := m.Encode(lang)
	verifReach("encoded")
	// header
	verifAssert(len(enc) >= 16 && len(enc)%2 == 0, "length even, at least one segment")
	verifAssert(w16(enc, 0) == 4, "format")
	verifAssert(int(w16(enc, 2)) == len(enc), "length field equals emitted length")
	verifAssert(w16(enc, 4) == lang, "language")
	sc := int(w16(enc, 6)) / 2
	verifAssert(w16(enc, 6)%2 == 0 && sc >= 1 && 16+8*sc <= len(enc), "segCountX2")
	p, lg := 1, 0
	for p*2 <= sc {
		p *= 2
		lg++
	}
	verifAssert(int(w16(enc, 8)) == 2*p && int(w16(enc, 10)) == lg && int(w16(enc, 12)) == 2*sc-2*p, "searchRange/entrySelector/rangeShift")
	verifAssert(w16(enc, 14+2*(sc-1)) == 0xFFFF, "last endCode is 0xFFFF")
	verifAssert(w16(enc, 14+2*sc) == 0, "reservedPad")
	for k := 0; k < sc; k++ {
		verifAssert(w16(enc, 14+2*k) >= w16(enc, 16+2*sc+2*k), "start <= end")
		if k > 0 {
			verifAssert(w16(enc, 14+2*(k-1)) < w16(enc, 16+2*sc+2*k), "segments increasing and disjoint")
		}
	}
	c := verifU16("c")
	want := m[c]
	rg, defined := refF4(enc, c)
	verifAssert(defined && rg == want, "specification lookup of the encoded table gives m[c]")
	s, err := decodeFormat4(enc, nil)
	verifAssert(err == nil, "own encoding accepted")
	if err == nil {
		verifAssert(s.Lookup(rune(c)) == want, "decode(encode(m)) gives m[c]")
		lo, hi := s.CodeRange()
		mlo, mhi := m.CodeRange()
		verifAssert(lo == mlo && hi == mhi, "code range preserved")
	}
}

// ---- format 12 ----

func refF12(in []byte, c uint32) (glyph.ID, bool) {
	n := int(w32(in, 12))
	for i := 0; i < n; i++ {
		b := 16 + 12*i
		s, e, g := w32(in, b), w32(in, b+4), w32(in, b+8)
		if c >= s && c <= e {
			v := g + (c - s)
			return glyph.ID(v), v <= 0xFFFF
		}
	}
	return 0, true
}

// VerifH_C09_f12: Format12 encode/decode round trip on symbolic 32-bit keys; groups are maximal runs.
func VerifH_C09_f12() {
	n := verifChoose("entries", verifParam("maxentries", 3)+1)
	m := Format12{}
	for i := 0; i < n; i++ {
		k := verifU32("key")
		verifAssume(k <= 0x10FFFF)
		m[k] = glyph.ID(verifU16("gid"))
	}
	lang := verifU16("lang")
	enc := m.Encode(lang)
	verifAssert(w16(enc, 0) == 12 && w16(enc, 2) == 0, "format 12, reserved 0")
	verifAssert(int(w32(enc, 4)) == len(enc), "length field")
	verifAssert(w32(enc, 8) == uint32(lang), "language")
	ng := int(w32(enc, 12))
	verifAssert(len(enc) == 16+12*ng && ng <= len(m), "group count")
	for i := 0; i < ng; i++ {
		b := 16 + 12*i
		verifAssert(w32(enc, b) <= w32(enc, b+4), "group start <= end")
		if i > 0 {
			verifAssert(w32(enc, b-8) < w32(enc, b), "groups increasing")
			// maximal runs: adjacent groups are not mergeable
			contiguous := w32(enc, b-8)+1 == w32(enc, b) && w32(enc, b-4)+(w32(enc, b-8)-w32(enc, b-12))+1 == w32(enc, b+8)
			verifAssert(!contiguous, "groups are maximal runs")
		}
	}
	c := verifU32("c")
	verifAssume(c <= 0x10FFFF)
	want := m[c]
	rg, ok := refF12(enc, c)
	verifAssert(ok && rg == want, "specification lookup gives m[c]")
	s, err := decodeFormat12(enc, nil)
	verifAssert(err == nil, "own encoding accepted")
	if err == nil {
		verifReach("decoded")
		verifAssert(s.Lookup(rune(c)) == want, "decode(encode(m)) gives m[c]")
		verifAssert(len(s.(Format12)) == len(m), "no other code mapped")
	}
}

// VerifH_C09_f12dec: decodeFormat12 on arbitrary bytes: total, and agrees with the specification.
func VerifH_C09_f12dec() {
	ng := verifChoose("groups", 3)
	in := verifBytes("in", 16+12*ng)
	for i := 0; i < ng; i++ {
		b := 16 + 12*i
		// small spans: the decoder materialises the map
		verifAssume(w32(in, b+4) < w32(in, b) || w32(in, b+4)-w32(in, b) <= 2)
	}
	s, err := decodeFormat12(in, nil)
	if err != nil {
		return
	}
	verifReach("accepted")
	c := verifU32("c")
	want, ok := refF12(in, c)
	verifAssume(ok) // glyph ids above 0xFFFF are not representable
	verifAssert(s.Lookup(rune(c)) == want, "lookup agrees with the specification")
}

// ---- formats 0 and 6 ----

func VerifH_C09_f06() {
	switch verifChoose("format", 2) {
	case 0:
		in := verifBytes("in", 262)
		s, err := decodeFormat0(in, nil)
		if err != nil {
			return
		}
		verifReach("format0")
		c := verifU32("c")
		verifAssume(c <= 0x10FFFF)
		var want glyph.ID
		if c < 256 {
			want = glyph.ID(in[6+c])
		}
		verifAssert(s.Lookup(rune(c)) == want, "format 0 lookup")
		verifAssert(verifSame(s.Encode(w16(in, 4))[6:], in[6:]), "format 0 re-encode")
	default:
		cnt := verifChoose("count", 4)
		extra := verifChoose("extra", 2) * 2
		in := verifBytes("in", 10+2*cnt+extra)
		verifAssume(w16(in, 6) <= 0xFFFF-4) // firstCode+count within the 16-bit code space
		s, err := decodeFormat6(in, nil)
		if err != nil {
			return
		}
		verifReach("format6")
		c := verifU32("c")
		verifAssume(c <= 0x10FFFF)
		first, n := uint32(w16(in, 6)), uint32(w16(in, 8))
		var want glyph.ID
		if c >= first && c < first+n {
			want = glyph.ID(w16(in, 10+2*int(c-first)))
		}
		verifAssert(s.Lookup(rune(c)) == want, "format 6 lookup")
	}
}

// ---- the cmap table ----

func verifSubtableBytes(tag string) []byte {
	// a minimal well-formed format 6 subtable with symbolic first code / language (10 bytes)
	b := verifBytes(tag, 10)
	verifAssume(b[0] == 0 && b[1] == 6 && b[2] == 0 && b[3] == 10 && b[8] == 0 && b[9] == 0)
	return b
}

// VerifH_C09_table: Table encode/decode keeps all keys and shares identical subtables.
func VerifH_C09_table() {
	n := 1 + verifChoose("n", verifParam("maxsub", 3))
	t := Table{}
	var shared []byte
	distinct := 0
	for i := 0; i < n; i++ {
		key := Key{PlatformID: verifU16("platform"), EncodingID: verifU16("encoding"), Language: verifU16("language")}
		verifAssume(key.PlatformID <= 4)
		if key.PlatformID != 1 {
			verifAssume(key.Language == 0) // the reader zeroes the language of non-Macintosh subtables
		}
		var data []byte
		if shared != nil && verifChoose("share", 2) == 1 {
			data = shared
			if key.PlatformID == 1 {
				verifAssume(w16(data, 4) == key.Language)
			}
		} else {
			data = verifSubtableBytes("sub")
			// the language field inside a Macintosh subtable is what the reader reports
			if key.PlatformID == 1 {
				verifAssume(w16(data, 4) == key.Language)
			}
			shared = data
			distinct++
		}
		t[key] = data
	}
	verifMapOrder(true)
	enc := t.Encode()
	again := t.Encode()
	verifMapOrder(false)
	verifAssert(verifSame(enc, again), "encoding the same table twice gives the same bytes (independent of map iteration order)")
	verifAssert(w16(enc, 0) == 0 && int(w16(enc, 2)) == len(t), "header")
	for i := 1; i < len(t); i++ {
		a, b := 4+8*(i-1), 4+8*i
		less := w16(enc, a) < w16(enc, b) || w16(enc, a) == w16(enc, b) && w16(enc, a+2) <= w16(enc, b+2)
		verifAssert(less, "encoding records sorted by platform, encoding")
	}
	verifAssert(len(enc) <= 4+8*len(t)+10*distinct, "identical subtables stored once")
	got, err := Decode(enc)
	verifAssert(err == nil, "own encoding accepted")
	if err != nil {
		return
	}
	verifReach("decoded")
	verifAssert(len(got) == len(t), "same number of subtables")
	for k, v := range t {
		verifAssert(verifSame(got[k], v), "subtable bytes preserved under its key")
	}
}

// VerifH_C09_best: GetBest prefers (3,10) > (0,4) > (3,1) > (0,3) > (1,0) for every presence pattern.
func VerifH_C09_best() {
	cands := []Key{{3, 10, 0}, {0, 4, 0}, {3, 1, 0}, {0, 3, 0}, {1, 0, 0}}
	t := Table{}
	first := -1
	for i, k := range cands {
		if verifBool("present") {
			// distinguishable format-6 tables: code 'A'+i -> glyph i+1
			t[k] = []byte{0, 6, 0, 12, 0, 0, 0, byte('A' + i), 0, 1, 0, byte(i + 1)}
			if first < 0 {
				first = i
			}
		}
	}
	// an unrelated subtable must never be chosen
	t[Key{2, 2, 0}] = []byte{0, 6, 0, 12, 0, 0, 0, 'Z', 0, 1, 0, 99}
	s, err := t.GetBest()
	if first < 0 {
		verifAssert(err != nil, "no candidate: error")
		return
	}
	verifReach("chosen")
	verifAssert(err == nil && s.Lookup(rune('A'+first)) == glyph.ID(first+1), "best subtable is the first present candidate")
}

// VerifH_C09_f4blocks: maps whose cheapest encoding needs several glyphIdArray segments: two blocks of scattered
// codes (concrete keys, symbolic unrelated glyph ids) separated by a gap.
func VerifH_C09_f4blocks() {
	m := Format4{}
	base := []uint16{0xFF00, 0xFF40}
	if verifParam("lowwindow", 0) != 0 {
		base = []uint16{0x0020, 0x0060}
	}
	var gids []glyph.ID
	for _, b := range base {
		for i := uint16(0); i < 4; i++ {
			g := glyph.ID(verifU16("gid"))
			verifAssume(g != 0)
			// scattered: consecutive codes do not map to consecutive glyphs (no delta segment can cover two of them)
			if len(gids)%4 != 0 {
				verifAssume(g != gids[len(gids)-1]+1)
			}
			gids = append(gids, g)
			m[b+i] = g
		}
	}
	verifUnwind(70000)
	enc := m.Encode(0)
	sc := int(w16(enc, 6)) / 2
	arraySegs := 0
	for k := 0; k < sc; k++ {
		if w16(enc, 16+2*sc+2*(2*sc)+2*k) != 0 {
			arraySegs++
		}
	}
	if arraySegs >= 2 {
		verifReach("two glyphIdArray segments")
	}
	c := verifU16("c")
	want := m[c]
	rg, defined := refF4(enc, c)
	verifAssert(defined && rg == want, "specification lookup of the encoded table gives m[c]")
	s, err := decodeFormat4(enc, nil)
	verifAssert(err == nil, "own encoding accepted")
	if err == nil {
		verifAssert(s.Lookup(rune(c)) == want, "decode(encode(m)) gives m[c]")
	}
}

// VerifH_C09_coderange: CodeRange of format 4 and format 12 maps is [smallest, largest] mapped code, whatever
// the map iteration order.
func VerifH_C09_coderange() {
	n := 1 + verifChoose("entries", 3)
	var lo, hi uint32 = 0x7FFFFFFF, 0
	var a, b rune
	if verifChoose("format", 2) == 0 {
		m := Format12{}
		for i := 0; i < n; i++ {
			k := verifU32("key")
			verifAssume(k <= 0x10FFFF)
			m[k] = 1
			if k < lo {
				lo = k
			}
			if k > hi {
				hi = k
			}
		}
		verifMapOrder(true)
		a, b = m.CodeRange()
	} else {
		m := Format4{}
		for i := 0; i < n; i++ {
			k := verifU16("key")
			m[k] = 1
			if uint32(k) < lo {
				lo = uint32(k)
			}
			if uint32(k) > hi {
				hi = uint32(k)
			}
		}
		verifMapOrder(true)
		a, b = m.CodeRange()
	}
	verifMapOrder(false)
	verifAssert(a == rune(lo) && b == rune(hi), "CodeRange is [smallest, largest] mapped code")
	verifReach("done")
}
