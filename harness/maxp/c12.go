//go:build verif

package maxp

import "bytes"

// VerifH_C12_maxp: maxp round trip (both versions) and totality on arbitrary bytes.
func VerifH_C12_maxp() {
	info := &Info{NumGlyphs: int(verifU16("numglyphs"))}
	verifAssume(info.NumGlyphs >= 1)
	if verifChoose("ttf", 2) == 1 {
		info.TTF = &TTFInfo{verifU16("a"), verifU16("b"), verifU16("c"), verifU16("d"), verifU16("e"), verifU16("f"), verifU16("g"), verifU16("h"), verifU16("i"), verifU16("j"), verifU16("k"), verifU16("l"), verifU16("m")}
	}
	enc := info.Encode()
	got, err := Read(bytes.NewReader(enc))
	verifAssert(err == nil, "own table accepted")
	if err != nil {
		return
	}
	verifReach("read")
	verifAssert(got.NumGlyphs == info.NumGlyphs && (got.TTF == nil) == (info.TTF == nil), "glyph count and version")
	if info.TTF != nil {
		verifAssert(*got.TTF == *info.TTF, "TrueType maxima")
	}
}

func VerifH_C12_maxp_bytes() {
	n := verifChoose("len", 33)
	in := verifBytes("in", n)
	g1, err := Read(bytes.NewReader(in))
	if err != nil {
		return
	}
	verifReach("accepted")
	e2 := g1.Encode()
	g2, err := Read(bytes.NewReader(e2))
	verifAssert(err == nil && g2.NumGlyphs == g1.NumGlyphs && (g2.TTF == nil) == (g1.TTF == nil), "fixed point")
	if err == nil && g1.TTF != nil {
		verifAssert(*g1.TTF == *g2.TTF, "fixed point (maxima)")
	}
}
