//go:build verif

package os2

import (
	"bytes"

	"seehuhn.de/go/postscript/funit"
)

func vI(tag string) funit.Int16 { return funit.Int16(verifI16(tag)) }

// normal form: what the file format can represent (documented in the Info comments / Encode)
func normalForm(x Info) Info {
	if x.IsRegular {
		x.IsBold, x.IsItalic = false, false
	}
	if x.XHeight < 0 {
		x.XHeight = 0
	}
	if x.CapHeight < 0 {
		x.CapHeight = 0
	}
	x.UnicodeRange.Bool(57, x.LastCharIndex == 0xFFFF)
	return x
}

// VerifH_C12_os2: OS/2 fields survive; fsSelection / fsType / code page layouts as specified.
func VerifH_C12_os2() {
	info := Info{
		WeightClass: Weight(verifU16("weight")), WidthClass: Width(verifU16("width")),
		IsBold: verifBool("bold"), IsItalic: verifBool("italic"), IsRegular: verifBool("regular"), IsOblique: verifBool("oblique"),
		FirstCharIndex: verifU16("first"), LastCharIndex: verifU16("last"),
		Ascent: vI("asc"), Descent: vI("desc"), WinAscent: vI("wasc"), WinDescent: vI("wdesc"), LineGap: vI("gap"), CapHeight: vI("cap"), XHeight: vI("xh"),
		AvgGlyphWidth: vI("avg"), SubscriptXSize: vI("s1"), SubscriptYSize: vI("s2"), SubscriptXOffset: vI("s3"), SubscriptYOffset: vI("s4"),
		SuperscriptXSize: vI("s5"), SuperscriptYSize: vI("s6"), SuperscriptXOffset: vI("s7"), SuperscriptYOffset: vI("s8"), StrikeoutSize: vI("s9"), StrikeoutPosition: vI("s10"),
		FamilyClass: verifI16("family"), Vendor: verifStr("vendor", 4),
		UnicodeRange: UnicodeRange{verifU32("ur0"), verifU32("ur1"), verifU32("ur2"), verifU32("ur3")}, CodePageRange: CodePageRange(verifU64("cpr")),
		PermUse: Permissions(verifChoose("perm", 4)), PermNoSubsetting: verifBool("nosubset"), PermOnlyBitmap: verifBool("onlybitmap"),
	}
	copy(info.Panose[:], verifBytes("panose", 10))
	enc := info.Encode()
	verifAssert(len(enc) == 96, "version 4 table is 96 bytes")
	// bit layouts
	fsType := uint16(enc[8])<<8 | uint16(enc[9])
	wantType := map[Permissions]uint16{PermInstall: 0, PermRestricted: 2, PermView: 4, PermEdit: 8}[info.PermUse]
	if info.PermNoSubsetting {
		wantType |= 0x100
	}
	if info.PermOnlyBitmap {
		wantType |= 0x200
	}
	verifAssert(fsType == wantType, "fsType bits")
	sel := uint16(enc[62])<<8 | uint16(enc[63])
	verifAssert((sel&0x40 != 0) == info.IsRegular && (sel&0x200 != 0) == info.IsOblique && sel&0x80 != 0, "fsSelection REGULAR/OBLIQUE/USE_TYPO_METRICS")
	if !info.IsRegular {
		verifAssert((sel&1 != 0) == info.IsItalic && (sel&0x20 != 0) == info.IsBold, "fsSelection ITALIC/BOLD")
	}
	// ulCodePageRange1 (bits 0-31) comes first in the file, then ulCodePageRange2 (bits 32-63)
	cp1 := uint32(enc[78])<<24 | uint32(enc[79])<<16 | uint32(enc[80])<<8 | uint32(enc[81])
	cp2 := uint32(enc[82])<<24 | uint32(enc[83])<<16 | uint32(enc[84])<<8 | uint32(enc[85])
	verifAssert(cp1 == uint32(info.CodePageRange) && cp2 == uint32(info.CodePageRange>>32), "code page words")
	got, err := Read(bytes.NewReader(enc))
	verifAssert(err == nil, "own table accepted")
	if err != nil {
		return
	}
	verifReach("read")
	verifAssert(verifSame(*got, normalForm(info)), "Read(Encode(x)) equals the normal form of x")
}

// VerifH_C12_os2_bytes: arbitrary bytes (all table versions / lengths): total and a fixed point.
func VerifH_C12_os2_bytes() {
	n := []int{68, 78, 86, 96, 100, 70, 90}[verifChoose("len", 7)]
	in := verifBytes("in", n)
	g1, err := Read(bytes.NewReader(in))
	if err != nil {
		return
	}
	verifReach("accepted")
	e2 := g1.Encode()
	g2, err := Read(bytes.NewReader(e2))
	verifAssert(err == nil, "re-encoded accepted")
	if err != nil {
		return
	}
	verifAssert(verifSame(*g2, normalForm(*g1)), "fixed point up to normal form")
	e3 := g2.Encode()
	g3, _ := Read(bytes.NewReader(e3))
	verifAssert(verifSame(*g3, *g2) && verifSame(e3, g3.Encode()), "second cycle is exact")
}
