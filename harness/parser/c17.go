//go:build verif

package parser

import (
	"errors"
	"io"
)

// verifRSS is a ReadSeekSizer over a byte slice whose Read may return short counts (at most
// `shorts` times) and may deliver the final bytes together with io.EOF.
type verifRSS struct {
	data   []byte
	pos    int64
	shorts int
}

func (f *verifRSS) Size() int64 { return int64(len(f.data)) }

func (f *verifRSS) Seek(offset int64, whence int) (int64, error) {
	if whence != io.SeekStart {
		panic("harness reader: only SeekStart is used by the parser")
	}
	if offset < 0 {
		return f.pos, errors.New("negative position")
	}
	f.pos = offset
	return offset, nil
}

func (f *verifRSS) Read(p []byte) (int, error) {
	if f.pos >= int64(len(f.data)) {
		return 0, io.EOF
	}
	if len(p) == 0 {
		return 0, nil
	}
	n := len(f.data) - int(f.pos)
	if n > len(p) {
		n = len(p)
	}
	eof := false
	if f.shorts > 0 {
		switch verifChoose("short", 4) {
		case 1:
			n = 1
			f.shorts--
		case 2:
			if n > 1 {
				n--
				f.shorts--
			}
		case 3:
			eof = int(f.pos)+n == len(f.data) // last bytes delivered together with io.EOF
		}
	}
	copy(p, f.data[f.pos:int(f.pos)+n])
	f.pos += int64(n)
	if eof {
		return n, io.EOF
	}
	return n, nil
}

var verifLens = []int{0, 1, 3, 5, 1023, 1024, 1025, 2047, 2048, 2050, 3072, 5000}

// window picks a symbolic value near one of the interesting offsets.
func verifOffset(tag string, L int) int64 {
	var base int
	switch verifChoose(tag+".base", 5) {
	case 0:
		base = 0
	case 1:
		base = L
	case 2:
		base = 1024
	case 3:
		base = 2048
	default:
		base = L / 2
	}
	d := int(verifU8(tag + ".delta"))
	verifAssume(d <= 4)
	return int64(base + d - 2)
}

func be(b []byte) uint32 {
	var v uint32
	for _, x := range b {
		v = v<<8 | uint32(x)
	}
	return v
}

// one operation against the model (data, off); returns the new model offset.
func verifOp(p *Parser, data []byte, off int64) int64 {
	L := int64(len(data))
	verifAssert(p.Pos() == off, "Pos() is the model offset")
	verifAssert(p.Size() == L, "Size()")
	fixed := func(n int64) (bool, []byte) {
		if n == 0 {
			return true, nil // a read of zero bytes never passes the end
		}
		if off+n <= L {
			return true, data[off : off+n]
		}
		return false, nil
	}
	switch verifChoose("op", 9) {
	case 0:
		q := verifOffset("seek", int(L))
		err := p.SeekPos(q)
		if q < 0 {
			verifAssert(err != nil, "negative seek fails")
			return off
		}
		verifAssert(err == nil, "seek (also beyond EOF) succeeds")
		return q
	case 1:
		n := int(verifU8("discard"))
		verifAssume(n <= 4 || n == 200)
		err := p.Discard(n)
		verifAssert(err == nil, "discard succeeds")
		return off + int64(n)
	case 2:
		v, err := p.ReadUint8()
		ok, b := fixed(1)
		verifAssert((err == nil) == ok, "ReadUint8 fails iff it passes the end")
		if !ok {
			verifAssert(err == io.ErrUnexpectedEOF, "unexpected EOF error")
			return p.Pos()
		}
		verifAssert(uint32(v) == be(b), "ReadUint8 value")
		return off + 1
	case 3:
		v, err := p.ReadUint16()
		ok, b := fixed(2)
		verifAssert((err == nil) == ok, "ReadUint16 fails iff it passes the end")
		if !ok {
			verifAssert(err == io.ErrUnexpectedEOF, "unexpected EOF error")
			return p.Pos()
		}
		verifAssert(uint32(v) == be(b), "ReadUint16 value")
		return off + 2
	case 4:
		v, err := p.ReadInt16()
		ok, b := fixed(2)
		verifAssert((err == nil) == ok, "ReadInt16 fails iff it passes the end")
		if !ok {
			return p.Pos()
		}
		verifAssert(v == int16(be(b)), "ReadInt16 value")
		return off + 2
	case 5:
		v, err := p.ReadUint32()
		ok, b := fixed(4)
		verifAssert((err == nil) == ok, "ReadUint32 fails iff it passes the end")
		if !ok {
			verifAssert(err == io.ErrUnexpectedEOF, "unexpected EOF error")
			return p.Pos()
		}
		verifAssert(v == be(b), "ReadUint32 value")
		return off + 4
	case 6:
		// ReadUint16Slice: keep the count small
		if off+2 <= L {
			verifAssume(data[off] == 0 && data[off+1] <= 2)
		}
		vals, err := p.ReadUint16Slice()
		ok, b := fixed(2)
		n := int64(0)
		if ok {
			n = int64(be(b))
			ok, b = fixed(2 + 2*n)
		}
		verifAssert((err == nil) == ok, "ReadUint16Slice fails iff it passes the end")
		if !ok {
			verifAssert(vals == nil, "no partial data on failure")
			return p.Pos()
		}
		verifAssert(int64(len(vals)) == n, "slice length")
		for i := range vals {
			verifAssert(uint32(vals[i]) == be(b[2+2*i:4+2*i]), "slice element")
		}
		return off + 2 + 2*n
	case 7:
		var n int
		switch verifChoose("rb", 4) {
		case 0:
			n = int(verifU8("rb.n"))
			verifAssume(n <= 3)
		case 1:
			n = 1022 + int(verifU8("rb.n"))
			verifAssume(n <= 1024)
		case 2:
			n = 512
		default:
			n = -1 // negative sizes read nothing
		}
		got, err := p.ReadBytes(n)
		if n < 0 {
			n = 0
		}
		ok, b := fixed(int64(n))
		verifAssert((err == nil) == ok, "ReadBytes fails iff it passes the end")
		if !ok {
			verifAssert(err == io.ErrUnexpectedEOF && got == nil, "unexpected EOF, no partial data")
			return p.Pos()
		}
		verifAssert(verifSame(got, b), "ReadBytes data")
		return off + int64(n)
	default:
		var n int
		switch verifChoose("rd", 4) {
		case 0:
			n = int(verifU8("rd.n"))
			verifAssume(n <= 2)
		case 1:
			n = 1023 + int(verifU8("rd.n"))
			verifAssume(n <= 1026)
		case 2:
			n = 2100
		default:
			n = 700
		}
		buf := make([]byte, n)
		k, err := p.Read(buf)
		ok, b := fixed(int64(n))
		verifAssert((err == nil) == ok, "Read fails iff it passes the end")
		if ok {
			verifAssert(k == n && verifSame(buf, b), "Read data")
			return off + int64(n)
		}
		verifAssert(err == io.ErrUnexpectedEOF, "unexpected EOF error")
		verifAssert(k < n && int64(k) <= L-off || off > L && k == 0, "short count")
		if off+int64(k) <= L && k > 0 {
			verifAssert(verifSame(buf[:k], data[off:off+int64(k)]), "bytes delivered before the failure are file bytes")
		}
		return p.Pos()
	}
}

// VerifH_C17_history: bounded histories from New() over files of boundary lengths.
func VerifH_C17_history() {
	L := verifLens[verifChoose("len", len(verifLens))]
	data := verifBytes("data", L)
	f := &verifRSS{data: data, shorts: verifParam("shorts", 1)}
	p := New(f)
	off := int64(0)
	steps := verifParam("steps", 2)
	for i := 0; i < steps; i++ {
		off = verifOp(p, data, off)
	}
	verifAssert(p.Pos() == off, "final Pos()")
	verifReach("done")
}

// VerifH_C17_deep: the same, starting from a state deep inside the file (after a bulk read and a seek),
// so that from>0, a partially consumed buffer and compaction are exercised.
func VerifH_C17_deep() {
	L := verifLens[4+verifChoose("len", len(verifLens)-4)]
	data := verifBytes("data", L)
	f := &verifRSS{data: data, shorts: verifParam("shorts", 1)}
	p := New(f)
	off := int64(0)
	// prefix: read 1000 bytes, then a fixed-size value (forces a refill with compaction when L > 1024)
	b, err := p.ReadBytes(1000)
	verifAssert(err == nil && verifSame(b, data[:1000]), "prefix read")
	off = 1000
	steps := verifParam("steps", 2)
	for i := 0; i < steps; i++ {
		off = verifOp(p, data, off)
	}
	verifAssert(p.Pos() == off, "final Pos()")
	verifReach("done")
}

// VerifH_C17_bulk: a bulk Read larger than the buffer starting from a drained buffer (pos == used), followed by
// a seek back into the region just read and a fixed-size read: the value must come from the requested offset.
func VerifH_C17_bulk() {
	L := 5000
	data := verifBytes("data", L)
	f := &verifRSS{data: data}
	p := New(f)
	pre := []int{0, 2, 1024}[verifChoose("prefix", 3)]
	if pre > 0 {
		b, err := p.ReadBytes(pre)
		verifAssert(err == nil && verifSame(b, data[:pre]), "prefix read")
	}
	off := int64(pre)
	n := []int{1024, 2048, 2100, 3000}[verifChoose("bulk", 4)]
	buf := make([]byte, n)
	k, err := p.Read(buf)
	verifAssert(err == nil && k == n && verifSame(buf, data[off:off+int64(n)]), "bulk read data")
	off += int64(n)
	verifAssert(p.Pos() == off, "position after the bulk read")
	// seek back by a symbolic amount (into or before the internal window) and read again
	back := int64(verifU16("back"))
	verifAssume(back <= 1100 && back <= off)
	q := off - back
	verifAssert(p.SeekPos(q) == nil, "seek back")
	v, err := p.ReadUint16()
	if q+2 <= int64(L) {
		verifAssert(err == nil && v == uint16(data[q])<<8|uint16(data[q+1]), "value after seeking back is the file content at that offset")
	}
	verifAssert(p.Pos() == q+2 || err != nil, "position")
	verifReach("done")
}

// VerifH_C17_slice: ReadUint16Slice with a length word in the windows around 0, 512 (the buffer size in words),
// 2^15 and 2^16: the call returns exactly the announced number of words when the file holds them and fails
// with an error (never a shorter or zero-filled slice) otherwise.
func VerifH_C17_slice() {
	L := []int{6, 1030, 5000}[verifChoose("len", 3)]
	data := verifBytes("file", L)
	n := int(data[0])<<8 | int(data[1])
	lo := []int{0, 510, 0x7FFE, 0xFFFC}[verifChoose("window", 4)]
	verifAssume(n >= lo && n <= lo+5)
	p := New(&verifRSS{data: data})
	vals, err := p.ReadUint16Slice()
	verifReach("done")
	if 2+2*n <= L {
		verifAssert(err == nil && len(vals) == n, "all announced words are returned")
		for i := 0; i < len(vals) && i < 3; i++ {
			verifAssert(vals[i] == uint16(data[2+2*i])<<8|uint16(data[3+2*i]), "words in file order")
		}
		verifAssert(p.Pos() == int64(2+2*n), "position behind the array")
	} else {
		verifAssert(err != nil, "an array that passes the end of the input is an error")
	}
}
