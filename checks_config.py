"""Per-property harness configuration for ./check."""

CHECKS = {}

CHECKS["C11"] = {
    "harnesses": [
        {"pkg": "glyf", "files": ["c11_simple.go"], "func": "VerifH_simple_nopanic",
         "quick": {"params": {}, "timeout": 200}, "reach": ["accepted", "decoded"]},
    ],
    "bounds": {"quick": "simple glyph: Encoded 4..7 symbolic bytes, NumContours in 0..2"},
    "outside": [],
    "assumptions": [],
}
