"""Per-property harness configuration for ./check."""

CHECKS = {}

# properties not (yet) claimed, with the reason; entries are dropped automatically once a check exists
NOT_APPLICABLE = {
}
for _p in ["C01", "C02", "C03", "C04", "C05", "C06", "C07", "C08", "C09", "C10", "C12", "C13", "C14", "C15", "C16", "C18", "C19", "C20"]:
    NOT_APPLICABLE[_p] = "no check registered yet in this revision (planned, see DESIGN.md §5); not claimed"

def H(pkg, files, func, reach=(), quick=None, thorough=None, **kw):
    d = {"pkg": pkg, "files": files if isinstance(files, list) else [files], "func": func, "reach": list(reach),
         "quick": quick or {}, "thorough": thorough or quick or {}}
    d.update(kw)
    return d

_G = ["c08.go", "common.go"]
_S = ["c06.go", "refshaper.go", "common.go"]
_S7 = ["c07.go", "c06.go", "refshaper.go", "common.go"]

CHECKS["C11"] = {
    "harnesses": [
        H("glyf", "c11.go", "VerifH_C11_spec", ["accepted", "points"],
          quick={"params": {"maxextra": 5, "maxpts": 3}, "timeout": 240},
          thorough={"params": {"maxextra": 8, "maxpts": 5}, "timeout": 1500}),
        H("glyf", "c11.go", "VerifH_C11_roundtrip", ["decoded"],
          quick={"params": {"maxglyphs": 2, "body": 2}, "timeout": 240},
          thorough={"params": {"maxglyphs": 2, "body": 4, "twocomp": 1}, "timeout": 1500, "shards": 2}),
        H("glyf", "c11.go", "VerifH_C11_composite2", ["decoded"], quick={"timeout": 240, "shards": 2}),
        H("glyf", "c11.go", "VerifH_C11_fixpoint", ["accepted", "simple", "composite"],
          quick={"params": {"bytes": 16}, "timeout": 240},
          thorough={"params": {"bytes": 24}, "timeout": 1500}),
        H("glyf", "c11.go", "VerifH_C11_components", ["fixed"], quick={"timeout": 120}),
        H("glyf", "c11.go", "VerifH_C11_loca", ["long", "short"], quick={"timeout": 120}),
    ],
    "bounds": {"quick": "simple glyphs: <=3 contours, <=3 points, body <= 2*nc+2+5 symbolic bytes (+3 for three contours), instruction length <=2; glyph sets of <=2 glyphs (nil/simple/composite with 1-2 components, symbolic flags, args, ids, bbox); arbitrary glyf bytes <=16 split into 2 glyphs, both loca formats; loca: <=3 glyph sizes symbolic up to 200000 each; composites with 2..3 components where any component may carry WE_HAVE_INSTRUCTIONS (0..3 symbolic instruction bytes, symbolic ids and arguments)",
               "thorough": "as quick with <=5 points, body +8, 3 glyphs, 24 arbitrary bytes"},
    "outside": ["more than 3 glyphs per set", "more than 2 components", "simple glyphs with more than 5 points", "comparison with golang.org/x/image"],
    "assumptions": ["SimpleGlyph value domain: Encoded is a complete unpadded description (what glyf.Decode delivers)",
                    "CompositeGlyph value domain: MORE_COMPONENTS set on all but the last component, argument data length as implied by flags, Instructions non-nil iff some component has WE_HAVE_INSTRUCTIONS",
                    "coordinates outside int16 are outside the format (points compared only when in range)"],
}

CHECKS["C17"] = {
    "harnesses": [
        H("parser", "c17.go", "VerifH_C17_history", ["done"],
          quick={"params": {"steps": 2, "shorts": 1}, "timeout": 280, "shards": 12},
          thorough={"params": {"steps": 3, "shorts": 2}, "timeout": 2400, "shards": 12}),
        H("parser", "c17.go", "VerifH_C17_deep", ["done"],
          quick={"params": {"steps": 2, "shorts": 1}, "timeout": 280, "shards": 8},
          thorough={"params": {"steps": 3, "shorts": 2}, "timeout": 2400, "shards": 8}),
        H("parser", "c17.go", "VerifH_C17_bulk", ["done"], quick={"timeout": 280, "shards": 3}),
        H("parser", "c17.go", "VerifH_C17_slice", ["done"], quick={"timeout": 280, "shards": 3}),
    ],
    "bounds": {"quick": "file lengths {0,1,3,5,1023,1024,1025,2047,2048,2050,3072,5000} with fully symbolic contents; every sequence of 2 operations over the 9 operation kinds from New() and from a state 1000 bytes into the file; seek targets symbolic within +-2 of {0, L, L/2, 1024, 2048}; read sizes symbolic near 0 and 1024 plus {512,700,2100,negative}; reader may return 1 short read (1 byte or n-1 bytes) or the final bytes together with io.EOF",
               "thorough": "as quick with 3 operations and 2 short reads"},
    "outside": ["file lengths other than the 12 listed", "seek targets/read sizes away from the listed windows", "readers returning (0, nil) forever or non-EOF errors (C18)", "histories longer than 3 operations"],
    "assumptions": ["reader obeys the io.Reader/io.Seeker contracts; short reads limited per run", "ReadUint16Slice counts <= 2 in the history harnesses; count windows around 0, 512, 2^15 and 2^16 in VerifH_C17_slice"],
}

CHECKS["C03"] = {
    "harnesses": [
        H("header", "c03.go", "VerifH_C03_layout", ["validated", "read back"],
          quick={"params": {"maxtables": 2}, "timeout": 280, "shards": 2},
          thorough={"params": {"maxtables": 3}, "timeout": 2400, "shards": 3}),
        H("header", "c03.go", "VerifH_C03_checksum", ["done"],
          quick={"params": {"maxlen": 9}, "timeout": 120},
          thorough={"params": {"maxlen": 17}, "timeout": 600}),
    ],
    "bounds": {"quick": "maps with 1..2 entries; tags from {head, glyf, OS/2} or fully symbolic printable 4-byte tags outside the priority table; body lengths {0,1,2,3,4,5,8} or nil, symbolic contents; head of 54, 12 or 0..11 bytes; all three scaler types; nondeterministic map iteration order; checksum for every data of length <= 9",
               "thorough": "3 entries; checksum length <= 17"},
    "outside": ["more than 3 tables", "tables longer than 54 bytes (uint32 offset arithmetic at large sizes)", "agreement with golang.org/x/image on whole fonts", "files written by the full font writer (covered per table by C11/C12/...)"],
    "assumptions": ["at least one non-nil table (header.Read rejects table-less files)", "tags are 4 printable ASCII characters"],
}

CHECKS["C09"] = {
    "harnesses": [
        H("cmap", "c09.go", "VerifH_C09_f4dec", ["accepted", "via glyphIdArray"],
          quick={"params": {"maxarray": 2, "span": 1}, "timeout": 280},
          thorough={"params": {"maxarray": 3, "span": 3}, "timeout": 2400}),
        H("cmap", "c09.go", "VerifH_C09_f4enc", ["encoded"],
          quick={"params": {"maxentries": 2}, "timeout": 280, "unwind": 70000},
          thorough={"params": {"maxentries": 3, "lowwindow": 0}, "timeout": 2400, "unwind": 70000}),
        H("cmap", "c09.go", "VerifH_C09_f4blocks", ["two glyphIdArray segments"], quick={"timeout": 280, "unwind": 70000}, thorough={"params": {"lowwindow": 1}, "timeout": 2400, "unwind": 70000}),
        H("cmap", "c09.go", "VerifH_C09_f12", ["decoded"],
          quick={"params": {"maxentries": 3}, "timeout": 280},
          thorough={"params": {"maxentries": 4}, "timeout": 2400}),
        H("cmap", "c09.go", "VerifH_C09_f12dec", ["accepted"], quick={"timeout": 200}),
        H("cmap", "c09.go", "VerifH_C09_coderange", ["done"], quick={"timeout": 200}),
        H("cmap", "c09.go", "VerifH_C09_f06", ["format0", "format6"], quick={"timeout": 200}),
        H("cmap", "c09.go", "VerifH_C09_table", ["decoded"],
          quick={"params": {"maxsub": 2}, "timeout": 280}, thorough={"params": {"maxsub": 3}, "timeout": 2400}),
        H("cmap", "c09.go", "VerifH_C09_best", ["chosen"], quick={"timeout": 100}),
    ],
    "bounds": {"quick": "format 4 decode: arbitrary 2-segment subtables (36..40 bytes), spans <=2 codes, glyphIdArray <=2 words, symbolic query code; format 4 encode: maps of 1..2 entries with keys symbolic in [0xFFF8,0xFFFF] and symbolic non-zero 16-bit glyph ids, symbolic language and query code; format 12: 0..3 entries with symbolic keys <= 0x10FFFF; decodeFormat12 on <=2 arbitrary groups (span<=3); formats 0 and 6 on arbitrary bytes; Table with 1..2 subtables and symbolic keys; all 32 presence patterns of the GetBest candidates; CodeRange of format 4 and 12 maps with 1..3 symbolic keys under every map iteration order",
               "thorough": "format 4 spans <=4, array 3 words, 3 map entries; format 12 with 4 entries; 3 subtables"},
    "outside": ["format 4 maps with keys outside the 8-code window or more than 3 entries (dense maps near the 64 KiB limit)", "format 12 with more than 4 entries", "Mac Roman code translation of format 0/4/6 subtables (code2rune)", "x/image comparison"],
    "assumptions": ["idRangeOffset values even; last segment ends at 0xFFFF (format requirement)", "lookups whose glyphIdArray address lies outside the subtable are undefined by the specification and excluded",
                    "Format4 maps hold non-zero glyph ids (glyph 0 = unmapped)", "glyph ids above 0xFFFF in format 12 are not representable"],
}

CHECKS["C12"] = {
    "harnesses": [
        H("hmtx", "c12.go", "VerifH_C12_hmtx", ["decoded", "compressed or not"],
          quick={"params": {"maxglyphs": 2}, "timeout": 280}, thorough={"params": {"maxglyphs": 3}, "timeout": 2400}),
        H("hmtx", "c12.go", "VerifH_C12_hmtx_bytes", ["accepted"],
          quick={"params": {"maxhmtx": 8}, "timeout": 280}, thorough={"params": {"maxhmtx": 16}, "timeout": 2400}),
        H("head", "c12.go", "VerifH_C12_head", ["read"], quick={"timeout": 200}),
        H("head", "c12.go", "VerifH_C12_head_bytes", ["accepted"], quick={"timeout": 200}),
        H("maxp", "c12.go", "VerifH_C12_maxp", ["read"], quick={"timeout": 100}),
        H("maxp", "c12.go", "VerifH_C12_maxp_bytes", ["accepted"], quick={"timeout": 200}),
        H("os2", "c12.go", "VerifH_C12_os2", ["read"], quick={"timeout": 280}),
        H("os2", "c12.go", "VerifH_C12_os2_bytes", ["accepted"], quick={"timeout": 280}),
        H("post", "c12.go", "VerifH_C12_post", ["read"], quick={"timeout": 200}),
        H("post", "c12.go", "VerifH_C12_post_bytes", ["accepted"], quick={"timeout": 200}),
        H(".", ["c12.go", "common.go"], "VerifH_C12_fontderived", ["read"], quick={"timeout": 280}),
        H("glyf", "c12.go", "VerifH_C12_bboxpdf", ["done"], quick={"timeout": 280, "shards": 6}),
    ],
    "bounds": {"quick": "hmtx: 1..2 glyphs with symbolic int16 widths, extents and (optionally explicit) side bearings, vertical caret; arbitrary 36-byte hhea + <=8 byte hmtx; head: all fields symbolic (timestamps any int64 second or unset), arbitrary 54 bytes; maxp both versions, arbitrary <=32 bytes; OS/2: all fields symbolic (version 4), arbitrary tables of 68..100 bytes; post header: italic angle any 16.16 value, arbitrary 32..36 bytes; usFirstCharIndex / usLastCharIndex of the OS/2 table written by (*Font).Write for format 12 cmaps of 1..3 symbolic code points from any plane",
               "thorough": "hmtx 3 glyphs / 16 bytes"},
    "outside": ["caret slope rise/run (Atan2/Sin/Cos are outside the solver fragment): vertical caret only", "glyph counts above 6", "font-level derived fields other than usFirstCharIndex / usLastCharIndex (FontBBox, xAvgCharWidth) and PDF-unit queries", "post glyph names (C14)"],
    "assumptions": ["OS/2 normal form: IsRegular clears IsBold/IsItalic, non-positive XHeight/CapHeight are stored as 0, Unicode range bit 57 follows LastCharIndex==0xFFFF", "a timestamp encoding to 0 (1904-01-01 00:00:00) is read as 'unset'", "xMaxExtent/minRSB definitions checked with lsb = xMin (LSB derived from the extents)"],
}

CHECKS["C14"] = {
    "harnesses": [
        H("mac", "c14.go", "VerifH_C14_mac", ["bytes"], quick={"params": {"maxlen": 1}, "timeout": 280}, thorough={"params": {"maxlen": 2}, "timeout": 2400}),
        H("mac", "c14.go", "VerifH_C14_mac_runes", ["representable"], quick={"timeout": 280}),
        H("mac", "c14.go", "VerifH_C14_mac_table", ["done"], quick={"timeout": 280}),
        H("name", "c14.go", "VerifH_C14_utf16", ["done"], quick={"timeout": 280}),
        H("name", "c14.go", "VerifH_C14_utf16_units", ["done"], quick={"timeout": 280}),
        H("name", "c14.go", "VerifH_C14_name", ["decoded"], quick={"params": {"maxids": 1, "langs": 1, "maxchars": 2}, "timeout": 280}, thorough={"params": {"maxids": 2, "langs": 3, "maxchars": 2}, "timeout": 2400}),
        H("name", "c14.go", "VerifH_C14_name_bytes", ["accepted"], quick={"params": {"maxextra": 2, "maxrec": 1}, "timeout": 280}, thorough={"params": {"maxextra": 8, "maxrec": 2}, "timeout": 2400}),
        H("opentype/gtab", ["c08.go", "common.go"], "VerifH_C08_scriptlist", ["read"], quick={"timeout": 280}),
        H("post", "c14.go", "VerifH_C14_postnames", ["format1", "format2"], quick={"params": {"maxnames": 1}, "timeout": 280}, thorough={"params": {"maxnames": 2}, "timeout": 2400}),
    ],
    "bounds": {"quick": "Mac Roman: every byte string of length 1 [2 thorough] and every Unicode scalar value; UTF-16: every valid string of <=2 scalar values, every sequence of <=2 code units (plus a dangling byte); name table: Macintosh 'en' and Windows 'en-US' [3 languages each in thorough], 1 name id symbolic over 0..65535, strings of 1..2 characters (Mac: printable ASCII; Windows: any scalar values); arbitrary name-table bytes with <=1 record [2]; post: names nil / the 258 standard names (optionally one replaced) / lists of 1 [2] names (standard by symbolic index or symbolic custom strings of 0..2 bytes)",
               "thorough": "2 name ids, 12 extra bytes, 3 post names"},
    "outside": ["BCP 47 <-> platform language id / OpenType script-language tag mapping (x/text tables: only concrete enumeration possible)", "strings longer than 2 characters (up to 32767 units)", "more than 2 languages per platform", "Mac strings with non-ASCII repertoire members inside the name table (covered by the codec harnesses)", "x/image comparison"],
    "assumptions": ["strings are valid UTF-8 without NUL", "Macintosh strings are representable in Mac Roman"],
}

CHECKS["C13"] = {
    "harnesses": [
        H("cff", "c13.go", "VerifH_C13_int", ["decoded"], quick={"timeout": 200}),
        H("cff", "c13.go", "VerifH_C13_dict_bytes", ["accepted"], quick={"params": {"maxlen": 2}, "timeout": 280}, thorough={"params": {"maxlen": 3}, "timeout": 2400}),
        H("cff", "c13.go", "VerifH_C13_index", ["read"], quick={"params": {"maxcount": 3}, "timeout": 200}),
        H("cff", "c13.go", "VerifH_C13_offsize", ["done"], quick={"timeout": 280}),
        H("cff", "c13.go", "VerifH_C13_charset", ["read"], quick={"params": {"maxnames": 4}, "timeout": 280}, thorough={"params": {"maxnames": 7}, "timeout": 2400}),
        H("cff", "c13.go", "VerifH_C13_charset_long", ["done"], quick={"timeout": 280}),
        H("cff", "c13.go", "VerifH_C13_fdselect", ["format3", "format0"], quick={"params": {"nchoices": 5}, "timeout": 280}, thorough={"params": {"nchoices": 7}, "timeout": 2400}),
        H("cff", "c13.go", "VerifH_C13_private", ["made"], quick={"timeout": 200}),
        H("cff", "c18.go", "VerifH_C13_offsets", ["read"], quick={"params": {"noticebase": 1040, "noticespan": 70}, "timeout": 280, "shards": 2}, thorough={"params": {"noticebase": 0, "noticespan": 1300}, "timeout": 2400, "shards": 2}),
        H("cff", "c13.go", "VerifH_C13_width", ["selected"], quick={"params": {"maxglyphsel": 2}, "timeout": 280}, thorough={"params": {"maxglyphsel": 3}, "timeout": 2400}),
    ],
    "bounds": {"quick": "DICT: 1..2 operands, each any int32; arbitrary DICT bytes (<=2, no reals); INDEX: 0..3 blobs of 0..2 symbolic bytes, and single blobs at the offSize thresholds {0,1,254,255,256,65534,65535,65536,70000}; charset: 1..4 symbolic 16-bit SIDs/CIDs (every run structure) plus runs of {255,256,257,300,513}; FDSelect: {1,2,5,8,9} glyphs over 1..3 font dicts, symbolic query glyph; widths: fonts of 1 or 2 glyphs with symbolic widths on a 1/16 grid in [-2000,2000] through selectWidths, makePrivateDict, encodeCharString and decodeCharString; every field of a Private DICT (BlueValues pair, BlueShift, BlueFuzz, StdHW, StdVW on a 1/16 grid, ForceBold, default and nominal width) at the cffDict seam; deterministic width selection under every map order; whole cff.Font Write -> Read of 2- and 4-glyph fonts with the Notice string length swept over 1040..1109 (section offsets crossing 1131|1132) and one symbolic width",
               "thorough": "DICT bytes 3, 7 names, up to 12 glyphs, 4 glyphs for widths"},
    "outside": ["DICT real numbers (encodeFloat/decodeFloat use Log10/Pow10/ParseFloat: not in the solver fragment)", "string INDEX / SIDs of custom strings, built-in encodings with supplements", "whole cff.Font Write/Read (CID-keyed fonts, FontInfo, font matrices)", "more than 9 glyphs, 256 private dicts"],
    "assumptions": ["widths on a 1/16 grid (exact dyadic arithmetic)", "default/nominal widths as seen by the reader are taken from the cffDict before DICT serialisation (reals are not serialised symbolically)"],
}

CHECKS["C05"] = {
    "harnesses": [
        H("cff", ["c05.go", "t2ref.go"], "VerifH_C05_path", ["interpreted"], quick={"params": {"fixed": 0}, "timeout": 280}, thorough={"params": {"fixed": 1}, "timeout": 2400}),
        H("cff", ["c05.go", "t2ref.go"], "VerifH_C05_stems", ["interpreted"], quick={"params": {"stemchoices": 4}, "timeout": 280, "shards": 2}, thorough={"params": {"stemchoices": 5}, "timeout": 2400, "shards": 2}),
        H("cff", ["c05.go", "t2ref.go"], "VerifH_C05_arith", ["interpreted"], quick={"timeout": 280}),
        H("cff", ["c05.go", "t2ref.go"], "VerifH_C05_stack", ["interpreted"], quick={"timeout": 280}),
        H("cff", ["c05.go", "t2ref.go"], "VerifH_C05_subr", ["called"], quick={"timeout": 280}),
        H("cff", ["c05.go", "t2ref.go"], "VerifH_C05_depth", ["done"], quick={"timeout": 100}),
        H("cff", ["c05.go", "t2ref.go"], "VerifH_C05_recursion", ["done"], quick={"timeout": 200}),
        H("cff", ["c05.go", "t2ref.go"], "VerifH_C05_storage", ["interpreted"], quick={"timeout": 200}),
        H("cff", "c13.go", "VerifH_C13_index", ["read"], quick={"params": {"maxcount": 3}, "timeout": 200}),
        H("cff", ["c05.go", "t2ref.go"], "VerifH_C05_fault", ["done"], quick={"timeout": 200}),
        H("cff", ["c05.go", "t2ref.go"], "VerifH_C05_bytes", ["accepted"], quick={"params": {"maxlen": 3}, "timeout": 280}, thorough={"params": {"maxlen": 5}, "timeout": 2400}),
    ],
    "bounds": {"quick": "programs: [width] + one moveto + one path operator (all 14 path/flex operators, every legal operand count up to 13) + endchar; stem programs with {0,1,2,4} [8] hstem/vstem pairs (so that the total is a multiple of 8 or not), explicit or implicit vstem, hintmask/cntrmask, second mask; one arithmetic/conditional/stack/storage operator with symbolic operands; subroutine tables of size {0,1,1239,1240,33899,33900,40000} with symbolic biased index near both table ends, local and global; call depth 8..11; 8 single-fault classes; arbitrary bytes of length <=3.  Operands symbolic int16 (operator 28) in [-10000,10000] [thorough: 16.16 via operator 255]; three subroutines calling each other with symbolic targets, the call in last position or followed by return; put and get on either side of a local or global subroutine call; INDEX round trip with empty entries (shared with C13)",
               "thorough": "16.16 operands; arbitrary bytes <=5"},
    "outside": ["operands outside [-32000,32000] (the decoder clamps deltas to that range by documented design)", "sqrt, div, random (outside the exact dyadic fragment)", "programs with more than one path operator after the prefix", "agreement with x/image"],
    "assumptions": ["reference interpreter written from Adobe TN5177 (harness/cff/t2ref.go) is the oracle", "arithmetic operands in [-150,150] so that results stay within the coordinate range"],
}

CHECKS["C04"] = {
    "harnesses": [
        H("cff", ["c04.go", "t2ref.go"], "VerifH_C04_int", ["done"], quick={"timeout": 200}),
        H("cff", ["c04.go", "t2ref.go"], "VerifH_C04_num", ["done"], quick={"timeout": 200}),
        H("cff", ["c04.go", "t2ref.go"], "VerifH_C04_glyph", ["compiled"], quick={"params": {"maxsegments": 1, "frac": 0, "coordlimit": 120, "shapes": 8}, "timeout": 280, "shards": 8}, thorough={"params": {"maxsegments": 2, "frac": 4, "coordlimit": 8000, "shapes": 12, "symwidths": 1}, "timeout": 3000, "shards": 12}),
        H("cff", ["c04.go", "t2ref.go"], "VerifH_C04_stems", ["compiled"], quick={"params": {"stemchoices": 5, "maskkinds": 2}, "timeout": 280, "shards": 5}, thorough={"params": {"stemchoices": 7, "maskkinds": 4, "symv": 1}, "timeout": 2400, "shards": 7}),
        H("cff", ["c04.go", "t2ref.go"], "VerifH_C04_long", ["compiled"], quick={"timeout": 280}),
        H("cff", ["c04.go", "t2ref.go"], "VerifH_C04_flex", ["compiled"], quick={"params": {"flexrange": 2}, "timeout": 280}, thorough={"params": {"flexrange": 6}, "timeout": 2400}),
        H("cff", ["c04.go", "t2ref.go"], "VerifH_C04_hvcurves", ["compiled"], quick={"params": {"hvextra": 0}, "timeout": 280}, thorough={"params": {"hvextra": 1}, "timeout": 2400}),
        H("cff", ["c04.go", "t2ref.go"], "VerifH_C04_accum", ["compiled"], quick={"params": {"accumextra": 0}, "timeout": 280}, thorough={"params": {"accumextra": 2}, "timeout": 2400}),
        H("cff", ["c04.go", "t2ref.go"], "VerifH_C04_bigdelta", [], quick={"timeout": 200}),
    ],
    "bounds": {"quick": "encodeInt: every int16; encodeNumber: every x on a 2^-18 grid in (-32767,32767); glyphs: moveto + 1 further segment (line or move; curves in the thorough tier) with integer coordinates symbolic in [-120,120], symbolic width and default/nominal widths; stems {0,1,2,23,24} per direction with symbolic first edge, no mask or hintmask first [thorough: cntrmask, mask after the first move]; runs of 23..29 lines / 7..9 curves with two solver-chosen steps; two consecutive curves with horizontal joint and symbolic vertical deltas in [-2,2] (flex candidates); runs of 3 lines or curves whose end points sit on quarter positions of the 16.16 cell; runs of 3 curves with every combination of horizontal / vertical / general start and end tangents, the last end tangent symbolic",
               "thorough": "2 further segments incl. curves on a 1/16 grid in [-8000,8000]; stems up to 48 per direction"},
    "outside": ["more than 4 free segments", "coordinates beyond +-8000 in the general harness (deltas must fit one Type 2 number; the big-delta case is a separate harness / known finding)", "non-dyadic reals"],
    "assumptions": ["reference interpreter from TN5177 (harness/cff/t2ref.go) judges well-formedness (operand counts, 48-entry stack, endchar)"],
}

CHECKS["C02"] = {
    "harnesses": [
        H("header", "c02.go", "VerifH_C02_header", ["accepted"], quick={"params": {"maxtables": 1}, "timeout": 280, "shards": 2}, thorough={"params": {"maxtables": 2, "maxextra": 2, "readtables": 1}, "timeout": 2400, "shards": 3}),
        H("kern", "c02.go", "VerifH_C02_kern", ["accepted"], quick={"params": {"maxpairs": 1}, "timeout": 280, "shards": 3}, thorough={"params": {"maxpairs": 2}, "timeout": 2400, "shards": 3}),
        H("cmap", "c02.go", "VerifH_C02_cmap", ["accepted", "subtable"], quick={"params": {"maxbody": 1, "maxtables": 1}, "timeout": 280, "shards": 2}, thorough={"params": {"maxbody": 3, "maxtables": 2}, "timeout": 2400, "shards": 3}),
        H("cmap", "c09.go", "VerifH_C09_f12dec", ["accepted"], quick={"timeout": 200}),
        H("cmap", "c09.go", "VerifH_C09_f06", ["format0", "format6"], quick={"timeout": 200}),
        H("cff", ["c02.go", "c13.go"], "VerifH_C02_cffreaders", ["index", "charset", "fdselect", "private"], quick={"params": {"maxlen": 4, "privfile": 2}, "timeout": 280, "shards": 4}, thorough={"params": {"maxlen": 8, "privfile": 12}, "timeout": 2400, "shards": 4}),
        H("cff", ["c05.go", "t2ref.go"], "VerifH_C05_bytes", ["accepted"], quick={"params": {"maxlen": 3}, "timeout": 280}, thorough={"params": {"maxlen": 5}, "timeout": 2400}),
        H("cff", "c13.go", "VerifH_C13_dict_bytes", ["accepted"], quick={"params": {"maxlen": 2}, "timeout": 280}, thorough={"params": {"maxlen": 3}, "timeout": 2400}),
        H("cff", ["c05.go", "t2ref.go"], "VerifH_C05_recursion", ["done"], quick={"timeout": 200}),
        H("glyf", "c11.go", "VerifH_C11_fixpoint", ["accepted", "simple", "composite"], quick={"params": {"bytes": 16}, "timeout": 240}, thorough={"params": {"bytes": 24}, "timeout": 1500}),
        H("glyf", "c11.go", "VerifH_C11_spec", ["accepted", "points"], quick={"params": {"maxextra": 5, "maxpts": 3}, "timeout": 240}, thorough={"params": {"maxextra": 8, "maxpts": 5}, "timeout": 1500}),
        H("hmtx", "c12.go", "VerifH_C12_hmtx_bytes", ["accepted"], quick={"params": {"maxhmtx": 8}, "timeout": 280}),
        H("head", "c12.go", "VerifH_C12_head_bytes", ["accepted"], quick={"timeout": 200}),
        H("maxp", "c12.go", "VerifH_C12_maxp_bytes", ["accepted"], quick={"timeout": 200}),
        H("os2", "c12.go", "VerifH_C12_os2_bytes", ["accepted"], quick={"timeout": 280}),
        H("post", "c12.go", "VerifH_C12_post_bytes", ["accepted"], quick={"timeout": 200}),
        H("name", "c14.go", "VerifH_C14_name_bytes", ["accepted"], quick={"params": {"maxextra": 2, "maxrec": 1}, "timeout": 280}, thorough={"params": {"maxextra": 8, "maxrec": 2}, "timeout": 2400}),
        H("opentype/coverage", "c08.go", "VerifH_C08_coverage_bytes", ["accepted"], quick={"params": {"maxlen": 16}, "timeout": 280}, thorough={"params": {"maxlen": 22}, "timeout": 2400}),
        H("opentype/classdef", "c08.go", "VerifH_C08_classdef_bytes", ["accepted"], quick={"params": {"maxlen": 8}, "timeout": 280}, thorough={"params": {"maxlen": 16}, "timeout": 2400}),
        H("opentype/gdef", "c08.go", "VerifH_C02_gdef", ["accepted"], quick={"params": {"maxwords": 2}, "timeout": 280, "shards": 3}, thorough={"params": {"maxwords": 5}, "timeout": 2400, "shards": 6}),
        H("opentype/gtab", _S7, "VerifH_C07_reader", ["accepted"], quick={"params": {"maxwords": 3}, "timeout": 280, "shards": 6}, thorough={"params": {"maxwords": 3}, "timeout": 2400, "shards": 6}),
        H(".", ["c02.go", "c16.go", "common.go"], "VerifH_C02_glyphcounts", ["accepted", "rejected"], quick={"timeout": 280, "shards": 6}),
        H(".", ["c02.go", "c16.go", "common.go"], "VerifH_C02_fontread", ["accepted", "rejected"], quick={"params": {"window": 2, "stride": 2, "nshards": 8}, "timeout": 280, "shards": 8}, thorough={"params": {"window": 2, "stride": 2, "nshards": 8}, "timeout": 2400, "shards": 8}),
    ],
    "bounds": {"quick": "arbitrary bytes per decoder, every implicit runtime check is an obligation: header.Read 12+16*1(+4) bytes; kern.Read <=2 subtables x <=1 pair; cmap.Decode <=1 encoding record + 10..18 byte body, then Get/Lookup/CodeRange/GetBest; cmap formats 0/6/12; glyf.Decode 16 bytes split into 2 glyphs (both loca formats) + SimpleGlyph.Decode; hmtx 36+8; head 54; maxp <=32; OS/2 68..100; post 32..36; name 6+12+2; CFF: readIndex <=8 bytes, readCharset <=8, readFDSelect <=9, readPrivate with arbitrary int32 (size, offset) over an 8-byte file under a 1 MiB allocation obligation, coverage and class definition tables <=12 bytes, GDEF tables 12..16 bytes, GSUB subtable readers 6..12 bytes followed by Apply, DICT <=2 bytes, Type 2 charstrings <=3 bytes; sfnt.Read + accessors (glyph count, widths, boxes, names, simple-glyph decoding, components, cmap lookup, re-encoding) on every file that differs from a valid 5-glyph TrueType font (glyf/loca, cmap 12 with H and x, GSUB 4.1, GPOS 2.1+1.1, raw cvt/prep) in a window of 2 arbitrary bytes at every even offset behind the table directory (loops with input-dependent trip count cut at 12 iterations; fields listed under outside excluded); kern tables truncated anywhere inside the last subtable; Type 2 subroutines calling each other with symbolic targets",
               "thorough": "larger byte bounds per decoder (see harness list)"},
    "outside": ["sfnt.Read beyond 2-byte [3-byte] windows of one valid file, and in that harness the windows over head.unitsPerEm / created / modified, hhea caret slope, post italic angle, name strings and their length/offset fields, GSUB/GPOS script and language tags (consumers outside the solver fragment); cff.Read / gtab.Read on whole adversarial files (component readers only; the gtab subtable readers are exercised under C07)", "inputs of realistic size (several MB), time/allocation linearity beyond the per-path allocation obligation (e.g. quadratic work from overlapping kern subtables)", "termination beyond the unwinding bound of 100000 iterations per loop"],
    "assumptions": ["counts inside the inputs are assumed small where a decoder materialises per-entry data (listed in each harness)", "allocation obligation: every make() on a path is at most 2^22 elements (1 MiB in the CFF Private DICT harness)"],
}

_G = ["c08.go", "common.go"]
CHECKS["C08"] = {
    "harnesses": [
        H("opentype/coverage", "c08.go", "VerifH_C08_coverage", ["read", "format2"], quick={"params": {"maxglyphs": 4}, "timeout": 280}, thorough={"params": {"maxglyphs": 6}, "timeout": 2400}),
        H("opentype/coverage", "c08.go", "VerifH_C08_coverage_bytes", ["accepted"], quick={"params": {"maxlen": 16}, "timeout": 280}, thorough={"params": {"maxlen": 22}, "timeout": 2400}),
        H("opentype/classdef", "c08.go", "VerifH_C08_classdef", ["read", "format1", "format2"], quick={"params": {"maxglyphs": 3}, "timeout": 280}, thorough={"params": {"maxglyphs": 5}, "timeout": 2400}),
        H("opentype/classdef", "c08.go", "VerifH_C08_classdef_bytes", ["accepted"], quick={"params": {"maxlen": 8}, "timeout": 280}, thorough={"params": {"maxlen": 16}, "timeout": 2400}),
        H("opentype/classdef", "c08.go", "VerifH_C08_classdef_runs", ["read", "format2"], quick={"timeout": 280, "shards": 2}),
        H("opentype/gdef", "c08.go", "VerifH_C08_gdef", ["read"], quick={"timeout": 280, "shards": 2}),
        H("opentype/gtab", _G, "VerifH_C08_gsub", ["read"], quick={"timeout": 280}),
        H("opentype/gtab", _G, "VerifH_C08_gpos", ["read"], quick={"timeout": 280}),
        H("opentype/gtab", _G, "VerifH_C08_gpos2", ["read"], quick={"timeout": 280, "shards": 6}),
        H("opentype/gtab", _G, "VerifH_C08_scriptlist", ["read"], quick={"timeout": 280}),
        H("opentype/gtab", _G, "VerifH_C08_big", ["read"], quick={"timeout": 280, "shards": 11}),
        H("opentype/gtab", _G, "VerifH_C08_context", ["read"], quick={"params": {"ctxbig": 0}, "timeout": 280, "shards": 6}, thorough={"params": {"ctxbig": 1}, "timeout": 2400, "shards": 6}),
        H("opentype/gtab", _G, "VerifH_C08_lookuplist", ["read"], quick={"params": {"maxlookups": 2}, "timeout": 280}, thorough={"params": {"maxlookups": 3}, "timeout": 2400}),
    ],
    "bounds": {"quick": "coverage tables of 0..4 symbolic glyph ids over the full 16-bit range, arbitrary coverage bytes (<=12); class definitions of 0..3 glyphs inside an 8-id window with symbolic classes, arbitrary bytes (<=12); GSUB 1.1/1.2/2.1/3.1/4.1, GPOS 1.1/1.2/2.1/2.2/3.1/4.1/6.1, (chained) sequence context formats 1, 2 and 3 (class based formats with nil / empty / one-rule rule sets per class) with 1..2 coverage glyphs, <=2 rules/ligatures/alternates, <=2 nested actions, all ids/values symbolic; lookup lists of 0..2 lookups with symbolic flags and mark filtering set; GDEF tables with 0..2 classed glyphs, a mark attachment class and 0..2 mark glyph sets of 0..2 symbolic glyphs; GPOS 2.2 (2x2 classes), 3.1, 4.1, 6.1 with symbolic glyph ids, classes, value records and anchors; class definitions made of 2..3 runs (lengths 1..4, gaps 0..2, classes 1..3); script lists with any subset of 5 language systems of 3 scripts and symbolic feature indices; 11 subtable kinds with 600-glyph coverage tables (larger than the parser's window) and GPOS 4.1 / 6.1 with 300 marks",
               "thorough": "6 coverage glyphs, 5 classdef glyphs, 3 lookups"},
    "outside": ["GPOS 5 and GSUB 8.1 round trips, GPOS 2.2/3.1/4.1/6.1 beyond 2x2 classes / 2 glyphs per coverage", "extension subtables for lookup lists beyond 64 KiB", "script lists beyond 5 language systems of 3 scripts (x/text language tags run natively on concrete tags), feature lists"],
    "assumptions": ["coverage tables have indices 0..n-1 in increasing glyph order (value domain)", "class 0 entries are not stored (normal form)"],
}

_S = ["c06.go", "refshaper.go", "common.go"]
CHECKS["C06"] = {
    "harnesses": [
        H("opentype/gtab", _S, "VerifH_C06_single", ["applied"], quick={"params": {"maxlen": 2}, "timeout": 280, "shards": 4}, thorough={"params": {"maxlen": 4}, "timeout": 2400, "shards": 4}),
        H("opentype/gtab", _S, "VerifH_C06_multiple", ["applied"], quick={"params": {"maxlen": 2}, "timeout": 280}, thorough={"params": {"maxlen": 3}, "timeout": 2400}),
        H("opentype/gtab", _S, "VerifH_C06_ligature", ["applied"], quick={"params": {"maxlen": 3}, "timeout": 280}, thorough={"params": {"maxlen": 4}, "timeout": 2400}),
        H("opentype/gtab", _S, "VerifH_C06_pair", ["applied"], quick={"params": {"maxlen": 2}, "timeout": 280}, thorough={"params": {"maxlen": 3}, "timeout": 2400}),
        H("opentype/gtab", _S, "VerifH_C06_pairclass", ["applied"], quick={"params": {"maxlen": 2}, "timeout": 280, "shards": 2}, thorough={"params": {"maxlen": 3}, "timeout": 2400, "shards": 3}),
        H("opentype/gtab", _S, "VerifH_C06_pairresume", ["applied"], quick={"timeout": 280}),
        H("opentype/gtab", _S, "VerifH_C06_nestedfilter", ["applied"], quick={"timeout": 280}),
        H("opentype/gtab", _S, "VerifH_C06_context", ["applied"], quick={"params": {"maxlen": 2}, "timeout": 280}, thorough={"params": {"maxlen": 3}, "timeout": 2400}),
        H("opentype/gtab", _S7, "VerifH_C07_scratch", ["applied"], quick={"timeout": 280, "shards": 6}),
        H("opentype/gtab", _S, "VerifH_C06_markbase", ["applied"], quick={"timeout": 280}),
        H("opentype/gtab", _S, "VerifH_C06_chained", ["applied"], quick={"params": {"maxlen": 2}, "timeout": 280, "shards": 4}, thorough={"params": {"maxlen": 3}, "timeout": 2400, "shards": 4}),
    ],
    "bounds": {"quick": "lookup lists of concrete shape (GSUB 1.1, 1.2, 2.1 (+ a second lookup in 3 orders), 3.1, 4.1 with two competing ligatures, GPOS 1.1, 2.1 and 2.2 (class pairs, class values up to and beyond the matrix size) with/without second record, sequence context 5.1 with nested single substitutions) with symbolic replacement ids / value records / nested action indices; lookup flags symbolic over ignore-base/ligature/marks, mark filtering set and mark attachment type 0..2; GDEF class, mark attachment class and mark-set membership of one alphabet glyph symbolic; glyph sequences of length 1..3 [2..3 for ligature/pair/context] with symbolic ids over a 4-glyph alphabet; chained contexts 6.1 / 6.3 at top level and as nested lookup of context 5.1 / 5.3 with lookahead behind the parent's input (coverage sets symbolic over {1,2}); mark-to-base 4.1 with symbolic anchors, mark class and advances and a mark / ignored ligature between base and mark (only where specification and library agree on the base glyph); resume position after a pair adjustment (2.1 and 2.2) on sequences of 4 glyphs; nested contextual lookups of every format pair (scratch space reuse, shared with C07)",
               "thorough": "sequences up to length 4-5"},
    "outside": ["GSUB 8.1, class/coverage based context formats, chained contexts, GPOS 3/4/5/6", "nested lookups that change the sequence length inside a context", "sequences longer than 5, alphabets larger than 4"],
    "assumptions": ["reference shaper written from the OpenType specification (harness/opentype/gtab/refshaper.go) is the oracle", "an undefined mark filtering set contains no glyph"],
}

_S7 = ["c07.go", "c06.go", "refshaper.go", "common.go"]
CHECKS["C07"] = {
    "harnesses": [
        H("opentype/gtab", _S7, "VerifH_C07_reader", ["accepted"], quick={"params": {"maxwords": 3}, "timeout": 280, "shards": 6}, thorough={"params": {"maxwords": 3}, "timeout": 2400, "shards": 6}),
        H("opentype/gtab", _S7, "VerifH_C07_flags", ["applied"], quick={"timeout": 280}),
        H("opentype/gtab", _S7, "VerifH_C07_history", ["applied"], quick={"timeout": 280, "shards": 4}),
        H("opentype/gtab", _S7, "VerifH_C07_term", ["terminated"], quick={"timeout": 280}),
        H("opentype/gtab", _S7, "VerifH_C07_scratch", ["applied"], quick={"timeout": 280, "shards": 6}),
        H("opentype/gtab", _S7, "VerifH_C07_gposmut", ["accepted", "rejected"], quick={"timeout": 280, "shards": 7}),
        H("opentype/gtab", _S7, "VerifH_C07_sharedtext", ["applied"], quick={"timeout": 280}),
        H(".", ["c15.go", "common.go"], "VerifH_C15_plain", ["laid out"], quick={"params": {"maxlen": 2}, "timeout": 280}),
        H("opentype/gtab", ["c15.go", "common.go"], "VerifH_C15_find", ["found"], quick={"timeout": 280}),
        H("opentype/gtab", _S7, "VerifH_C06_ligature", ["applied"], quick={"params": {"maxlen": 2}, "timeout": 280}),
        H("opentype/gtab", _S7, "VerifH_C06_multiple", ["applied"], quick={"params": {"maxlen": 2}, "timeout": 280}),
        H("opentype/gtab", _S7, "VerifH_C06_pairclass", ["applied"], quick={"params": {"maxlen": 2}, "timeout": 280}),
    ],
    "bounds": {"quick": "GSUB subtable readers (types 1-6, every format) on arbitrary 6..12 byte inputs whose 16-bit words are <= the input length, the accepted subtable applied to symbolic sequences of length 1..2; lookup flags fully symbolic with mark filtering set index 0..3 against GDEF tables defining 0, 1 or 2 sets; Context reuse: a first Apply matching a rule with {1,63,64,70} nested actions followed by a second Apply on a symbolic sequence, compared with a fresh Context and the reference; a self-referential context rule with symbolic action indices; text conservation on the ligature and multiple-substitution harnesses of C06; every one-word mutation of valid GPOS 1.1/1.2/2.1/2.2/3.1/4.1/6.1 subtables through the reader and Apply on sequences of 2..3 symbolic glyphs; nested contextual lookups of all 6x6 format pairs on a sequence containing the pattern twice, Context reused; ligature substitution on glyphs whose Text slices share one backing array; FindLookups under every map order (shared with C15)",
               "thorough": "as quick with larger time budgets (class pair / ligature harnesses with longer sequences)"},
    "outside": ["gtab.Read on whole adversarial tables (per subtable only)", "GPOS readers", "sequences of length up to 200", "Layouter reuse (sfnt.Layouter)", "map iteration order inside FindLookups (C15)"],
    "assumptions": ["reference shaper (refshaper.go)", "reader inputs restricted to small 16-bit words (counts/offsets within the input)"],
}

_R = ["c10.go", "common.go"]
CHECKS["C10"] = {
    "harnesses": [
        H(".", _R, "VerifH_C10_glyf", ["subset"], quick={"params": {"maxlisted": 1}, "timeout": 280}, thorough={"params": {"maxlisted": 2}, "timeout": 2400}),
        H(".", _R, "VerifH_C10_cmap", ["subset"], quick={"timeout": 280, "shards": 3}),
        H(".", _R, "VerifH_C10_layout", ["subset", "ligature", "kerning"], quick={"timeout": 280}),
        H(".", _R, "VerifH_C10_cff", ["subset"], quick={"timeout": 280}),
    ],
    "bounds": {"quick": "TrueType font of 6 glyphs (3 simple, 2 composites with symbolic component ids incl. a nested composite, one empty glyph); glyph lists [0, g1] [thorough: [0, g1, g2]] with symbolic distinct members in any order, nondeterministic map iteration order; format 12 cmap over 4 characters (three consecutive ones) with symbolic target glyphs and glyph lists of 1..3 members; one GSUB 4.1 ligature rule and one GPOS 2.1 pair between two symbolic glyphs (the ligature glyph included) among 4 glyphs with symbolic glyph lists of 2..3 members; a CID-keyed CFF font with 5 glyphs, 3 font dictionaries and a symbolic FD assignment",
               "thorough": "3 listed glyphs"},
    "outside": ["simple CFF fonts and built-in encodings", "GSUB 1.1 rules, format 4 cmaps", "writing and re-reading the subset", "fonts with more than 6 glyphs"],
    "assumptions": ["glyph names identify outlines when checking that component references and ligature results point to the same outline"],
}

CHECKS["C20"] = {
    "harnesses": [
        H(".", ["c20.go", "common.go"], "VerifH_C20_names", ["named"], quick={"params": {"maxnamelen": 1}, "timeout": 280, "shards": 3}, thorough={"params": {"maxnamelen": 1, "fullsym": 1}, "timeout": 2400, "shards": 3}),
        H(".", ["c20.go", "common.go"], "VerifH_C20_ligs", ["named"], quick={"params": {"maxnamelen": 1}, "timeout": 280}),
        H("cff", "c20.go", "VerifH_C20_makesimple", ["named"], quick={"params": {"maxglyphs": 4}, "timeout": 280, "shards": 5}, thorough={"params": {"maxglyphs": 5}, "timeout": 2400, "shards": 5}),
        H(".", ["c20.go", "common.go"], "VerifH_C20_cff", ["named"], quick={"params": {"maxnamelen": 1}, "timeout": 280}, thorough={"params": {"maxnamelen": 2}, "timeout": 2400}),
    ],
    "bounds": {"quick": "TrueType font with 4 glyphs whose names are absent, a too-short list, or 4 symbolic strings of length 0..1 [2 in thorough] over {A,B,.} (missing, duplicate and colliding names are solver-chosen); format 12 cmap for 'A' and 'B' with one [thorough: two] symbolic target glyph(s); none or one GSUB 1.2 / 3.1 / 4.1 subtable with one [two] symbolic in-range glyph id(s); nondeterministic map iteration order; MakeGlyphNames twice, EnsureGlyphNames, GlyphName; a 3-glyph simple CFF font with symbolic names; two ligature rules and a single substitution with symbolic components / results among 5 glyphs (names generated twice from the same base); cff.Outlines.MakeSimple on 4 glyphs whose names are absent / a letter / letter.altN / orn00N / .notdef with symbolic letters and digits and optional text",
               "thorough": "same"},
    "outside": ["PostScriptName (regexp over a symbolic string)", "CID-keyed fonts", "more than 5 glyphs, symbolic names longer than 2 bytes (cff MakeSimple: names from a list of 8 candidates)"],
    "assumptions": ["GSUB rules refer to existing glyphs (as the property's quantifier states)"],
}

CHECKS["C15"] = {
    "harnesses": [
        H(".", ["c15.go", "common.go"], "VerifH_C15_plain", ["laid out"], quick={"params": {"maxlen": 2}, "timeout": 280}, thorough={"params": {"maxlen": 3}, "timeout": 2400}),
        H(".", ["c15.go", "common.go"], "VerifH_C15_kern", ["laid out"], quick={"timeout": 280}),
        H(".", ["c15.go", "common.go"], "VerifH_C15_liga", ["ligatures"], quick={"timeout": 280}),
        H(".", ["c15.go", "common.go"], "VerifH_C15_switches", ["laid out"], quick={"timeout": 280}),
        H("opentype/gtab", ["c15.go", "common.go"], "VerifH_C15_find", ["found"], quick={"timeout": 280}),
        H("kern", "c02.go", "VerifH_C02_kern", ["accepted"], quick={"params": {"maxpairs": 1}, "timeout": 280, "shards": 3}),
    ],
    "bounds": {"quick": "4-glyph TrueType font with symbolic widths, strings of 0..2 characters from {A,B,f,i,Z,U+1F600} (mapped and unmapped), layouter reused for a second call; kerning pairs with symbolic values in the structure sfnt.Read builds for a legacy kern table, strings of 2..3 characters; standardLigatures for all 32 presence patterns of U+FB00..FB04; FindLookups with 1..2 language systems, symbolic required/optional feature indices and lookup indices (incl. out of range), default or explicit switches, three query languages, nondeterministic map order; kern.Read vs the specification (shared with C02); NewLayouter with nil / empty / named GSUB and GPOS switch maps on a font with optional liga and kern features (symbolic kerning value)",
               "thorough": "strings of 3 characters"},
    "outside": ["whole-font reading (sfnt.Read) and the best-subtable choice inside it (C09)", "20 language systems", "GSUB features beyond the synthesized ligatures"],
    "assumptions": ["language matching (golang.org/x/text/language) runs natively on concrete tags"],
}

CHECKS["C18"] = {
    "harnesses": [
        H("header", ["c18.go", "c03.go"], "VerifH_C18_write", ["success", "fault"], quick={"timeout": 280, "shards": 2}),
        H("header", ["c18.go", "c03.go"], "VerifH_C18_read", ["truncated", "failing directory"], quick={"timeout": 280, "shards": 2}),
        H("parser", "c17.go", "VerifH_C17_history", ["done"], quick={"params": {"steps": 2, "shorts": 1}, "timeout": 280, "shards": 6}),
        H("cff", "c18.go", "VerifH_C18_cffwrite", ["success", "fault"], quick={"timeout": 280}),
        H(".", ["c18.go", "c16.go", "common.go"], "VerifH_C18_fontwrite", ["success", "fault"], quick={"timeout": 280, "shards": 2}),
        H(".", ["c18.go", "c16.go", "common.go"], "VerifH_C18_fontread", ["complete", "fault"], quick={"timeout": 280, "shards": 2}),
    ],
    "bounds": {"quick": "containers with 1..3 tables (optional 54-byte head, a table of 0/1/4/5 bytes, optionally a third of 2/3/8 bytes, symbolic contents): a writer accepting exactly k bytes for every k in 0..len+4 (k symbolic); the written file truncated to every k < len; a ReaderAt returning a non-EOF error for any access touching offset >= k, for every k; parser short reads (shared with C17, first 6 file lengths); (*cff.Font).Write of a concrete 2-glyph font into a writer failing after k bytes, every k; (*Font).Write and WriteTrueTypePDF of a 5-glyph font with GSUB/GPOS into a writer accepting exactly k bytes, every k (symbolic); sfnt.Read of that file truncated to k bytes and through a streaming reader failing after k bytes, every k",
               "thorough": "same"},
    "outside": ["the full font writer / reader ((*Font).Write, sfnt.Read) with injected faults", "streaming (non-seekable) readers", "files larger than ~150 bytes"],
    "assumptions": ["the failing writer reports short writes together with an error (io.Writer contract)"],
}

CHECKS["C01"] = {
    "harnesses": [
        H(".", ["c01.go", "common.go"], "VerifH_C01_shapes", ["read back"], quick={"timeout": 280, "shards": 6}),
        H("cff", "c13.go", "VerifH_C13_width", ["selected"], quick={"params": {"maxglyphsel": 2}, "timeout": 280}, thorough={"params": {"maxglyphsel": 3}, "timeout": 2400}),
        H(".", ["c01.go", "common.go"], "VerifH_C01_truetype", ["read back"], quick={"params": {"upems": 2, "widthclasses": 2, "symwidths": 2, "perms": 2}, "timeout": 290, "shards": 12}, thorough={"params": {"upems": 2, "widthclasses": 2, "symwidths": 2, "perms": 2}, "timeout": 3000, "shards": 12}),
    ],
    "level_text": "Compositional and bounded: the table-level round trips and fixed points are decided by the checks of C03, C08, C09, C11, C12, C13 and C14; this check adds the whole-font merge (Font.Write -> sfnt.Read -> Font.Write) executed symbolically on a tiny TrueType font of concrete shape with symbolic numeric fields.  It holds for all values of those fields within the bounds, and says nothing about other font shapes.",
    "bounds": {"quick": "one TrueType font shape: 4 glyphs (simple, simple, composite, empty), format 12 cmap for 2 characters, no GSUB/GPOS/GDEF, concrete strings and timestamps; symbolic islands: 2 of the 4 advance widths (>= 0) [all 4 in thorough], ascent, descent, line gap, cap height, x-height (> 0), weight class of {400,650,700} [1..1000], width class of {5,1} [all 9], bold/regular flags, serif/script/neither by case split, 2 [4] permission classes, all 64 code page bits, underline position and thickness; units per em of {1000, 2048}; three representative map iteration orders; obligations: unambiguous fields equal after Read(Write(F)), Write twice byte-identical, Write(Read(Write(Read(Write F)))) == Write(Read(Write F)); further shapes (VerifH_C01_shapes): a composite glyph declaring instructions of 0..2 symbolic bytes followed by another glyph, naming strings containing one symbolic Unicode scalar value (one process per UTF-8 length class), two Macintosh cmap subtables with symbolic distinct language fields; CFF width selection under every map order for fonts of 1..2 glyphs (shared with C13)",
               "thorough": "the quick bounds with a ten times larger time budget per harness (the deeper bounds planned for this tier were not run clean within the session and are not registered)"},
    "outside": ["CFF and CID-keyed fonts at font level (CFF: width selection and cff.Font Write/Read only)", "GSUB/GPOS/GDEF inside the whole font", "arbitrary accepted byte strings as whole files", "strings, version and timestamps as symbols", "italic angle other than 0 (trigonometric functions)", "fonts with more than 4 glyphs"],
    "assumptions": ["derived style fields (IsBold/IsItalic/IsRegular, which the reader also infers from weight and subfamily name) are compared only through the fixed point, not against F"],
}

CHECKS["C16"] = {
    "harnesses": [
        H(".", ["c16.go", "common.go"], "VerifH_C16_readonly", ["done"], quick={"timeout": 280, "shards": 9}),
        H("opentype/gtab/builder", ["c19.go"], "VerifH_C16_explain", ["done"], quick={"timeout": 280}),
    ],
    "level_text": "Frame argument decided symbolically: after the font is built every existing object (the font, everything reachable from it, all package-level variables) is frozen and every store, map update, delete, in-place append or copy into a frozen object during a read-only API call is an obligation, on every path.  Operations that only read shared memory cannot race with each other under the Go memory model and their results are functions of the shared state alone; this is a sufficient condition, actual interleavings are not explored.",
    "bounds": {"quick": "one TrueType font (5 glyphs incl. a composite and an empty glyph, format 12 cmap, one GSUB 4.1 lookup, one GPOS 2.1 lookup with script/feature lists); operations: Write, WriteTrueTypePDF, Subset (symbolic glyph), Clone, FontBBox/Widths/GlyphBBoxes/IsFixedPitch/NumGlyphs, MakeGlyphNames, GetFontInfo, NewLayouter+Layout twice, gtab.NewContext+Apply on the shared lookup list; builder.ExplainGsub / ExplainGpos on a second font (8 glyphs, GSUB 2.1/3.1/4.1/6.3 and GPOS 1.2/2.1 with unsorted alternate sets, ligature lists and coverage tables); header.Write padding and GPOS pair encoding on shared raw tables / pair records (spare capacity fingerprinted)",
               "thorough": "same"},
    "outside": ["actual goroutine interleavings and the Go race detector", "CFF fonts (AsCFF().Write, WriteOpenTypeCFFPDF)", "races inside natively executed library functions (language matcher, Adobe glyph list)"],
    "assumptions": ["Go memory model: calls that do not write shared memory do not race", "natively executed intrinsics (x/text language matching, names.FromUnicode) are assumed not to write shared state"],
}

_B = ["c19.go"]
CHECKS["C19"] = {
    "harnesses": [
        H("opentype/gtab/builder", _B, "VerifH_C19_templates", ["done"], quick={"timeout": 100}),
        H("opentype/gtab/builder", _B, "VerifH_C19_roundtrip", ["done"], quick={"params": {"fonts": 2, "maxgid": 3, "vrfields": 1}, "timeout": 280, "shards": 11},
          thorough={"params": {"fonts": 4, "maxgid": 7}, "timeout": 3000, "shards": 11}),
        H("opentype/gtab/builder", _B, "VerifH_C19_multi", ["done"], quick={"timeout": 280, "shards": 8}),
        H("opentype/gtab/builder", _B, "VerifH_C19_nocmap", ["done"], quick={"timeout": 280, "shards": 12}),
        H("opentype/gtab/builder", _B, "VerifH_C19_sched", ["done"], quick={"params": {"preemptions": 2}, "timeout": 280, "shards": 3}, thorough={"params": {"preemptions": 4}, "timeout": 3000, "shards": 3}),
        H("opentype/gtab/builder", _B, "VerifH_C19_text", ["accepted", "rejected"], quick={"params": {"window": 1}, "timeout": 280, "shards": 12},
          thorough={"params": {"window": 2}, "timeout": 3000, "shards": 12}),
    ],
    "level_text": "Bounded symbolic execution of builder.Parse / ExplainGsub / ExplainGpos including the lexer, string-decoder and parser goroutines: the engine runs interpreted goroutines with a channel model (unbuffered and buffered channels, close, range), reports 'all goroutines are asleep' as a deadlock, a panic in any goroutine as a crash and goroutines that can never finish as leaks.  Texts are valid descriptions with a window of arbitrary bytes; lookup lists have concrete shape with symbolic flags, glyph ids, value records and nested actions.",
    "bounds": {"quick": "12 valid descriptions (GSUB 1-6, GPOS 1-4, all subtable alternatives the language has syntax for) with every window of 1 arbitrary ASCII byte [thorough: 2 bytes] at every position, over a font of 8 named and mapped glyphs; round trip Parse(Explain(L)) == L for 11 lookup kinds (GSUB 1.1/1.2/2.1/3.1/4.1 with two ligatures, context 5.1, class based context 5.2 with rules for two first classes, chained context 6.3, GPOS 1.1/1.2/2.1) with all 8 subsets of the ignore flags, glyph ids symbolic in 1..3 [1..7 thorough], value records (nil or not) with one field over all of int16 and two fields present/absent [thorough: all three over int16], nested action indices symbolic uint16, over 2 fonts (named and mapped / neither) [thorough: all 4 combinations]; lookups with two or three subtables (every order of two alternatives of GPOS 1, 2, 3, 4, GSUB 5, 6 incl. class based formats) with symbolic flags; goroutine schedule: deterministic (run until blocked) in these harnesses; all interleavings of the lexer and parser goroutines at channel-operation granularity with at most 2 [thorough: 4] preemptive context switches for 3 short descriptions (12..17 bytes, up to 8 tokens, one of them over two lines) with one arbitrary ASCII byte at any position",
               "thorough": "window of 2 bytes"},
    "outside": ["texts further than a 2-byte window from the 12 templates (random / grammar-derived texts)", "non-ASCII bytes in the window unless param ascii=0", "GPOS 2.2/3/4 and class based contexts in the symbolic round trip (covered by the concrete templates only)", "real OS-thread interleavings (GOMAXPROCS): goroutines are interleaved at channel operations", "numbers with more than 18 digits"],
    "assumptions": ["goroutines communicate through channels only (interleaving at channel operations is then exhaustive)", "lookup lists in the normal form the parser produces (coverage order, value record nil iff all zero)"],
}
