"""Per-property harness configuration for ./check."""

CHECKS = {}

def H(pkg, files, func, reach=(), quick=None, thorough=None, **kw):
    d = {"pkg": pkg, "files": files if isinstance(files, list) else [files], "func": func, "reach": list(reach),
         "quick": quick or {}, "thorough": thorough or quick or {}}
    d.update(kw)
    return d

CHECKS["C11"] = {
    "harnesses": [
        H("glyf", "c11.go", "VerifH_C11_spec", ["accepted", "points"],
          quick={"params": {"maxextra": 5, "maxpts": 3}, "timeout": 240},
          thorough={"params": {"maxextra": 8, "maxpts": 5}, "timeout": 1500}),
        H("glyf", "c11.go", "VerifH_C11_roundtrip", ["decoded"],
          quick={"params": {"maxglyphs": 2, "body": 2}, "timeout": 240},
          thorough={"params": {"maxglyphs": 2, "body": 4, "twocomp": 1}, "timeout": 1500, "shards": 2}),
        H("glyf", "c11.go", "VerifH_C11_fixpoint", ["accepted", "simple", "composite"],
          quick={"params": {"bytes": 16}, "timeout": 240},
          thorough={"params": {"bytes": 24}, "timeout": 1500}),
        H("glyf", "c11.go", "VerifH_C11_components", ["fixed"], quick={"timeout": 120}),
        H("glyf", "c11.go", "VerifH_C11_loca", ["long", "short"], quick={"timeout": 120}),
    ],
    "bounds": {"quick": "simple glyphs: <=2 contours, <=3 points, body <= 2*nc+2+5 symbolic bytes, instruction length <=2; glyph sets of <=2 glyphs (nil/simple/composite with 1-2 components, symbolic flags, args, ids, bbox); arbitrary glyf bytes <=16 split into 2 glyphs, both loca formats; loca: <=3 glyph sizes symbolic up to 200000 each",
               "thorough": "as quick with <=5 points, body +8, 3 glyphs, 24 arbitrary bytes"},
    "outside": ["more than 3 glyphs per set", "more than 2 components", "simple glyphs with more than 5 points", "comparison with golang.org/x/image"],
    "assumptions": ["SimpleGlyph value domain: Encoded is a complete unpadded description (what glyf.Decode delivers)",
                    "CompositeGlyph value domain: MORE_COMPONENTS set on all but the last component, argument data length as implied by flags, Instructions non-nil iff some component has WE_HAVE_INSTRUCTIONS",
                    "coordinates outside int16 are outside the format (points compared only when in range)"],
}
