#!/bin/bash
# runs the thorough tier of the given properties one after the other (used with `vp run`); prints one line each
for p in "$@"; do
  s=$(date +%s)
  VERIF_OUT=$PWD/out-thorough ./check $p --tier thorough --jobs ${JOBS:-6} > thorough-$p.out 2> thorough-$p.err
  rc=$?
  echo "$p thorough exit=$rc wall=$(( $(date +%s)-s ))s $(tail -n 1 thorough-$p.err)"
done
