#!/usr/bin/env python3
"""seed_eval.py import <prop> <worktree>   -- verify agent-made breaking changes in a scratch worktree and keep them under /verif/seeded/
   seed_eval.py run [<seed-dir>...]       -- apply each kept change to /repo, run the property's quick check, undo, record the outcome"""
import json, os, re, shutil, subprocess, sys, glob
VERIF = os.path.dirname(os.path.abspath(__file__))
ENV = dict(os.environ, GOFLAGS="-mod=mod", GOPROXY="off", GOSUMDB="off", GOTOOLCHAIN="local")

def sh(cmd, cwd, timeout=1800):
    r = subprocess.run(cmd, cwd=cwd, env=ENV, shell=True, capture_output=True, text=True, timeout=timeout)
    return r.returncode, r.stdout + r.stderr

def pkg_of_demo(demo):
    m = re.search(r"^package (\w+)", open(demo).read(), re.M)
    return m.group(1)

def do_import(prop, wt):
    out = os.path.join(wt, "out")
    hold = os.path.join(wt, "..", os.path.basename(wt) + "-out")
    if os.path.exists(out):
        shutil.rmtree(hold, ignore_errors=True)
        shutil.move(out, hold)   # keep out/ outside the module while testing
    for d in sorted(glob.glob(os.path.join(hold, "*"))):
        if not os.path.isdir(d) or not os.path.exists(os.path.join(d, "patch.diff")):
            continue
        n = os.path.basename(d)
        meta = json.load(open(os.path.join(d, "meta.json")))
        files = [l[6:] for l in open(os.path.join(d, "patch.diff")) if l.startswith("+++ b/")]
        pkgdir = os.path.dirname(files[0])
        demo_dst = os.path.join(wt, pkgdir, "zz_demo_test.go")
        res = {"property": prop, "summary": meta.get("summary"), "needs": meta.get("needs"), "files": files}
        sh("git checkout -- . && git clean -fdq", wt)
        shutil.copy(os.path.join(d, "demo_test.go"), demo_dst)
        rc, o = sh("go test -vet=off -count=1 -run 'TestDemo' ./%s/" % pkgdir, wt)
        res["demo_passes_clean"] = rc == 0
        os.remove(demo_dst)
        rc, o = sh("git apply %s" % os.path.join(d, "patch.diff"), wt)
        res["applies"] = rc == 0
        rc, o = sh("go build ./... && go test -vet=off -count=1 ./... 2>&1 | tail -40", wt)
        res["suite_passes_with_change"] = rc == 0 and "FAIL" not in o
        shutil.copy(os.path.join(d, "demo_test.go"), demo_dst)
        rc, o = sh("go test -vet=off -count=1 -run 'TestDemo' ./%s/" % pkgdir, wt)
        res["demo_fails_with_change"] = rc != 0
        os.remove(demo_dst)
        sh("git checkout -- . && git clean -fdq", wt)
        ok = res["demo_passes_clean"] and res["applies"] and res["suite_passes_with_change"] and res["demo_fails_with_change"]
        res["confirmed"] = ok
        res["ran"] = ["demo on clean tree (pass)", "git apply patch.diff", "go build ./... && go test -vet=off -count=1 ./... (pass)", "demo with change (fail)"]
        print(prop, n, "confirmed" if ok else "REJECTED", res["summary"])
        if ok:
            dst = os.path.join(VERIF, "seeded", "%s-%s" % (prop, n))
            os.makedirs(dst, exist_ok=True)
            shutil.copy(os.path.join(d, "patch.diff"), dst)
            shutil.copy(os.path.join(d, "demo_test.go"), os.path.join(dst, "demo_test.go.txt"))
            json.dump(res, open(os.path.join(dst, "meta.json"), "w"), indent=1)

def do_run(dirs):
    """Runs in a scratch worktree of /repo's HEAD (SEED_WT, default /tmp/seedwt) with the outputs redirected
    (VERIF_OUT), so that /repo, /verif/evidence and concurrently running checks are not disturbed."""
    if not dirs:
        dirs = sorted(glob.glob(os.path.join(VERIF, "seeded", "*")))
    wt = os.environ.get("SEED_WT", "/tmp/seedwt")
    outdir = wt + "-out"
    if not os.path.exists(wt):
        rc, o = sh("git worktree add --detach %s HEAD" % wt, "/repo")
        if rc != 0:
            print("cannot create worktree", o); sys.exit(2)
    sh("git checkout -q --detach %s && git checkout -- . && git clean -fdq" % sh("git rev-parse HEAD", "/repo")[1].strip(), wt)
    global ENV
    ENV = dict(ENV, VERIF_REPO=wt, VERIF_OUT=outdir)
    for d in dirs:
        d = os.path.abspath(d)
        meta = json.load(open(os.path.join(d, "meta.json")))
        prop = meta["property"]
        rc, o = sh("git apply %s" % os.path.join(d, "patch.diff"), wt)
        if rc != 0:
            print(d, "patch does not apply", o); continue
        # SEED_CHECK=<Cxx> runs the check of another property against this change (cross-property detection)
        other = os.environ.get("SEED_CHECK")
        try:
            tier = os.environ.get("SEED_TIER", "quick")
            rc, o = sh("./check %s --tier %s %s" % (other or prop, tier, os.environ.get("SEED_ARGS", "")), VERIF, timeout=7200)
        finally:
            sh("git checkout -- .", wt)
        viol = [l for l in o.splitlines() if l.startswith("VIOLATION") or "  violation:" in l]
        key = tier if not other else "%s via %s" % (tier, other)
        meta.setdefault("detection", {})[key] = {"exit": rc, "detected": rc == 1, "violations": viol[:6]}
        json.dump(meta, open(os.path.join(d, "meta.json"), "w"), indent=1)
        print(os.path.basename(d), "exit", rc, "DETECTED" if rc == 1 else "missed", (viol[1] if len(viol) > 1 else "")[:160], flush=True)
        if rc not in (0, 1):
            print("   ", " | ".join(l for l in o.splitlines() if l.startswith("INTERNAL"))[:600], flush=True)

if sys.argv[1] == "import":
    do_import(sys.argv[2], sys.argv[3])
else:
    do_run(sys.argv[2:])
