package main

import (
	"fmt"
	"go/types"

	"golang.org/x/tools/go/ssa"
)

// Value is one of: *Term (bool / integer), *FloatV, StrV, *SStrV, *Ptr, *SliceV, *StructV, *ArrayV,
// TupleV, *IfaceV, *FuncV, *MapV, *IterV, NilV, *NativeV.
type Value interface{}

type Object struct {
	id   int
	val  Value
	site string
}

type Ptr struct {
	obj    *Object
	path   []int
	symIdx *Term // optional symbolic element index (relative to base) applied after path
	base   int
	n      int
}

type SliceV struct {
	obj           *Object // obj.val is *ArrayV; nil for a nil slice
	off, len, cap int
	symLen        *Term // "length-only" slice: len() is this term, the contents are not materialised
}

type StructV struct{ f []Value }
type ArrayV struct{ e []Value }
type TupleV []Value

type IfaceV struct {
	t types.Type
	v Value
}

type FuncV struct {
	fn     *ssa.Function
	bind   []Value
	native func(e *Exec, args []Value) Value // engine-provided function value
}

// StrV is a concrete string, SStrV a string of concrete length with symbolic bytes.
type StrV string
type SStrV struct{ b []*Term }

type NilV struct{}

type mapEntry struct {
	key, val Value
	deleted  bool
}
type MapV struct {
	id  int
	ent []*mapEntry
}
type IterV struct {
	m     *MapV
	order []int
	idx   int
	str   Value // for string ranges
	pos   int
}

// NativeV wraps an opaque Go value produced/consumed by native intrinsics (regexp, language tags …).
type NativeV struct{ v interface{} }

func copyVal(v Value) Value {
	switch x := v.(type) {
	case *StructV:
		n := &StructV{f: make([]Value, len(x.f))}
		for i, f := range x.f {
			n.f[i] = copyVal(f)
		}
		return n
	case *ArrayV:
		n := &ArrayV{e: make([]Value, len(x.e))}
		for i, f := range x.e {
			n.e[i] = copyVal(f)
		}
		return n
	}
	return v
}

func widthOf(t types.Type) int {
	switch b := t.Underlying().(type) {
	case *types.Basic:
		switch b.Kind() {
		case types.Bool, types.UntypedBool:
			return 0
		case types.Int8, types.Uint8:
			return 8
		case types.Int16, types.Uint16:
			return 16
		case types.Int32, types.Uint32, types.UntypedRune:
			return 32
		case types.Int, types.Uint, types.Int64, types.Uint64, types.Uintptr, types.UntypedInt:
			return 64
		}
	}
	return -1
}

func isSigned(t types.Type) bool {
	if b, ok := t.Underlying().(*types.Basic); ok {
		return b.Info()&types.IsInteger != 0 && b.Info()&types.IsUnsigned == 0
	}
	return false
}

func isFloat(t types.Type) bool {
	if b, ok := t.Underlying().(*types.Basic); ok {
		return b.Info()&types.IsFloat != 0
	}
	return false
}

func isString(t types.Type) bool {
	if b, ok := t.Underlying().(*types.Basic); ok {
		return b.Info()&types.IsString != 0
	}
	return false
}

func isInteger(t types.Type) bool {
	if b, ok := t.Underlying().(*types.Basic); ok {
		return b.Info()&types.IsInteger != 0
	}
	return false
}

var zeroCache = map[types.Type]Value{}

func zeroOf(t types.Type) Value {
	switch u := t.Underlying().(type) {
	case *types.Basic:
		if u.Info()&types.IsString != 0 {
			return StrV("")
		}
		if u.Info()&types.IsFloat != 0 {
			return &FloatV{}
		}
		if u.Kind() == types.UnsafePointer || u.Kind() == types.UntypedNil {
			return NilV{}
		}
		w := widthOf(t)
		if w == 0 {
			return tFalse
		}
		if w > 0 {
			return BV(w, 0)
		}
		panic("zero: unsupported basic " + t.String())
	case *types.Struct:
		s := &StructV{f: make([]Value, u.NumFields())}
		for i := range s.f {
			s.f[i] = zeroOf(u.Field(i).Type())
		}
		return s
	case *types.Array:
		a := &ArrayV{e: make([]Value, u.Len())}
		z := zeroOf(u.Elem())
		for i := range a.e {
			a.e[i] = copyVal(z)
		}
		return a
	case *types.Slice:
		return &SliceV{}
	case *types.Pointer, *types.Map, *types.Signature, *types.Chan, *types.Interface:
		return NilV{}
	case *types.Tuple:
		tv := make(TupleV, u.Len())
		for i := range tv {
			tv[i] = zeroOf(u.At(i).Type())
		}
		return tv
	}
	panic("zero: unsupported " + t.String())
}

func isNil(v Value) bool {
	switch x := v.(type) {
	case NilV:
		return true
	case *SliceV:
		return x.obj == nil
	case nil:
		return true
	}
	return false
}

func pathEq(a, b []int) bool {
	if len(a) != len(b) {
		return false
	}
	for i := range a {
		if a[i] != b[i] {
			return false
		}
	}
	return true
}

func navigate(v Value, path []int) Value {
	for _, i := range path {
		switch x := v.(type) {
		case *StructV:
			v = x.f[i]
		case *ArrayV:
			if i >= len(x.e) {
				panic(fmt.Sprintf("navigate: index %d out of %d", i, len(x.e)))
			}
			v = x.e[i]
		default:
			panic(fmt.Sprintf("navigate: bad value %T", v))
		}
	}
	return v
}

func setAt(root *Value, path []int, nv Value) {
	if len(path) == 0 {
		*root = nv
		return
	}
	v := *root
	for _, i := range path[:len(path)-1] {
		switch x := v.(type) {
		case *StructV:
			v = x.f[i]
		case *ArrayV:
			v = x.e[i]
		default:
			panic(fmt.Sprintf("setAt: bad %T", v))
		}
	}
	last := path[len(path)-1]
	switch x := v.(type) {
	case *StructV:
		x.f[last] = nv
	case *ArrayV:
		x.e[last] = nv
	default:
		panic(fmt.Sprintf("setAt: bad %T", v))
	}
}

func (s *SliceV) arr() *ArrayV {
	if s.obj == nil {
		return &ArrayV{}
	}
	return s.obj.val.(*ArrayV)
}

func (s *SliceV) at(i int) Value { return s.obj.val.(*ArrayV).e[s.off+i] }

func strLen(v Value) int {
	switch s := v.(type) {
	case StrV:
		return len(s)
	case *SStrV:
		return len(s.b)
	}
	panic(fmt.Sprintf("strLen of %T", v))
}

func strByte(v Value, i int) *Term {
	switch s := v.(type) {
	case StrV:
		return BV(8, uint64(s[i]))
	case *SStrV:
		return s.b[i]
	}
	panic(fmt.Sprintf("strByte of %T", v))
}

func mkStr(b []*Term) Value {
	all := true
	for _, t := range b {
		if !t.IsConst() {
			all = false
			break
		}
	}
	if all {
		bs := make([]byte, len(b))
		for i, t := range b {
			bs[i] = byte(t.V)
		}
		return StrV(bs)
	}
	return &SStrV{b: b}
}

func strBytes(v Value) []*Term {
	n := strLen(v)
	r := make([]*Term, n)
	for i := range r {
		r[i] = strByte(v, i)
	}
	return r
}

func describe(v Value) string {
	switch x := v.(type) {
	case *Term:
		return x.String()
	case StrV:
		return fmt.Sprintf("%q", string(x))
	case *SStrV:
		return fmt.Sprintf("symstr(len %d)", len(x.b))
	case *IfaceV:
		return "iface(" + x.t.String() + ": " + describe(x.v) + ")"
	case *Ptr:
		return fmt.Sprintf("&obj%d%v", x.obj.id, x.path)
	case *StructV:
		s := "{"
		for i, f := range x.f {
			if i > 0 {
				s += ", "
			}
			if i > 6 {
				s += "…"
				break
			}
			s += describe(f)
		}
		return s + "}"
	case NilV:
		return "nil"
	case *FloatV:
		return x.String()
	}
	return fmt.Sprintf("%T", v)
}
