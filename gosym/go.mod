module gosym

go 1.23.2

toolchain go1.23.5

require golang.org/x/tools v0.29.0

require (
	golang.org/x/mod v0.22.0 // indirect
	golang.org/x/sync v0.10.0 // indirect
)

require golang.org/x/text v0.16.0

require seehuhn.de/go/postscript v0.5.1-0.20250316102127-8863e3a3d4c4
