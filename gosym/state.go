package main

import (
	"fmt"
	"os"
	"sort"
	"strings"
	"time"

	"golang.org/x/tools/go/ssa"
)

type uniqFact struct {
	t *Term
	v uint64
}

type decision struct {
	kind     byte // 'b' branch, 'p' pick, 'c' choose
	val      uint64
	excluded []uint64
	uniq     []uniqFact // unique-value facts learned right after this decision (replayed verbatim)
}

type inputRec struct {
	Tag  string `json:"tag"`
	Kind string `json:"kind"` // u8,u16,u32,u64,bool,choose,dyad
	t    *Term
	ts   []*Term // a block of byte inputs (verifBytes); flattened by vector()
	V    uint64  `json:"v"`
}

type Finding struct {
	Kind     string     `json:"kind"` // assert, panic, runtime, unwind, reach
	What     string     `json:"what"`
	Site     string     `json:"site"`
	Class    string     `json:"class,omitempty"`
	Vector   []inputRec `json:"vector"`
	PathNo   int        `json:"path"`
	Observed []string   `json:"observed,omitempty"`
}

type PathSample struct {
	Vector  []inputRec `json:"vector"`
	Reached []string   `json:"reached"`
	End     string     `json:"end"`
}

type pathEnd struct{ reason string }
type goPanic struct {
	val  Value
	site string
}
type specAbort struct{}

type undoRec func()

type Exec struct {
	prog *ssa.Program
	s    *Solver
	cfn  map[*ssa.Function]*cfunc

	trace []decision
	pos   int
	work  [][]decision

	inputs  []inputRec
	ndCount map[string]int
	objN    int
	mapN    int

	bounds    map[*Term][2]uint64
	eqs       map[*Term]*Term
	substMemo map[*Term]*Term
	lits      map[*Term]bool
	model     map[*Term]uint64
	modelMemo map[*Term]uint64

	// per-path
	unwind     int
	instrPath  int64
	class      string
	observed   []string
	spec       int // >0 while speculating
	panicking  *goPanic
	recovered  bool
	frozen     int // objects with id <= frozen are shared (C16)
	frozenMap  int
	initDone   int // watermark of objects created by package init
	initMap    int
	undo       []undoRec
	mapOrder   bool
	allocBytes int64
	allocLimit int64

	// concrete mode
	concrete []uint64
	cpos     int

	// stats
	Paths         int
	Instrs        int64
	CacheHits     int
	ModelHits     int
	Obligations   int
	Discharged    int
	ObUnknown     int
	BrUnknown     int
	Findings      map[string]*Finding
	Reached       map[string]int
	funcsSeen     map[*ssa.Function]bool
	Samples       []string
	Assumes       map[string]bool
	Stubs         map[string]bool
	MaxUnwind     int
	cutBound      int
	gs            []*gor
	cur           *gor
	runq          []*gor
	xfer          interface{}
	schedExplore  bool
	preemptLeft   int // remaining preemptive context switches under schedule exploration (-1: unbounded)
	chanN         int
	leakDesc      string
	Cuts          int
	SpecOK        int
	SpecFail      int
	deadline      time.Time
	maxPaths      int
	maxInstr      int64
	Exhausted     string // non-empty if a budget stopped exploration
	harness       string
	verbose       bool
	firstChoice   int
	noMerge       bool
	defaultUnwind int
	dirty         map[*Object]bool
	dirtyMaps     map[*MapV]bool
	aliases       map[*ArrayV]*Object
	forced        map[string]int
	forcedEx      map[string]string
	curSite       string
	bigMapOrder   int
	forkSites     map[string]int
	pendingUniq   []uniqFact
	initPhase     bool
	stack         []*ssa.Function
	pcVars        []*Term
	pcVarSet      map[*Term]bool
	params        map[string]int
	wantSamples   int
	PathSamples   []PathSample
	forcedPath    map[string]int
	pathReached   []string
	uniqTried     map[*Term]bool
	Uniq          int
}

func NewExec(prog *ssa.Program) *Exec {
	return &Exec{prog: prog, cfn: map[*ssa.Function]*cfunc{}, Findings: map[string]*Finding{}, Reached: map[string]int{},
		funcsSeen: map[*ssa.Function]bool{}, Assumes: map[string]bool{}, Stubs: map[string]bool{}, firstChoice: -1,
		lits: map[*Term]bool{}, eqs: map[*Term]*Term{}, bounds: map[*Term][2]uint64{}, substMemo: map[*Term]*Term{}, ndCount: map[string]int{}}
}

func (e *Exec) newObj(v Value, site string) *Object {
	e.objN++
	return &Object{id: e.objN, val: v, site: site}
}

func (e *Exec) newMap() *MapV {
	e.mapN++
	return &MapV{id: e.mapN}
}

// ---------- model cache ----------

func (e *Exec) modelSays(c *Term) (bool, bool) {
	if e.model == nil {
		return false, false
	}
	v, ok := evalTerm(c, e.model, e.modelMemo)
	return v != 0, ok
}

var termVarsCache = map[*Term][]*Term{}

func termVars(t *Term) []*Term {
	if vs, ok := termVarsCache[t]; ok {
		return vs
	}
	var out []*Term
	seen := map[*Term]bool{}
	var walk func(x *Term)
	walk = func(x *Term) {
		if x == nil || seen[x] || x.Op == OpConst {
			return
		}
		seen[x] = true
		if x.Op == OpVar {
			out = append(out, x)
			return
		}
		if vs, ok := termVarsCache[x]; ok {
			for _, v := range vs {
				if !seen[v] {
					seen[v] = true
					out = append(out, v)
				}
			}
			return
		}
		walk(x.A)
		walk(x.B)
		walk(x.C)
	}
	walk(t)
	termVarsCache[t] = out
	return out
}

// noteAsserted records the variables constrained by the path condition.
func (e *Exec) noteAsserted(c *Term) {
	for _, v := range termVars(c) {
		if !e.pcVarSet[v] {
			e.pcVarSet[v] = true
			e.pcVars = append(e.pcVars, v)
		}
	}
}

func (e *Exec) fetchModel() {
	// only variables that occur in the path condition are constrained; all others may take any value (0)
	ts := e.pcVars
	m := map[*Term]uint64{}
	if len(ts) > 0 {
		vs := e.s.GetValues(ts)
		for i, t := range ts {
			m[t] = vs[i]
		}
	}
	e.model = m
	e.modelMemo = map[*Term]uint64{}
}

// modelWorthIt decides whether fetching a model (to decide one side of a branch for free) is
// cheaper than an extra feasibility query; model construction can be expensive with many variables.
func (e *Exec) modelWorthIt() bool {
	s := e.s
	if s.Gets < 10 || s.Queries < 10 {
		return true
	}
	avgGet := s.GetTime.Seconds() / float64(s.Gets)
	avgChk := s.Time.Seconds() / float64(s.Queries)
	return avgGet < 1.5*avgChk
}

// ---------- learned facts ----------

func (e *Exec) bnd(t *Term) (uint64, uint64) {
	if b, ok := e.bounds[t]; ok {
		return b[0], b[1]
	}
	return t.lo, t.hi
}

func (e *Exec) setBnd(t *Term, lo, hi uint64) {
	l0, h0 := e.bnd(t)
	if lo < l0 {
		lo = l0
	}
	if hi > h0 {
		hi = h0
	}
	if lo > hi {
		return
	}
	e.bounds[t] = [2]uint64{lo, hi}
	if lo == hi && !t.IsConst() {
		e.learnEq(t, lo)
	}
	// propagate through zero-extension
	if t.Op == OpZExt {
		m := mask(t.A.W)
		if hi > m {
			hi = m
		}
		if lo <= hi {
			e.setBnd(t.A, lo, hi)
		}
	}
}

func (e *Exec) learnBounds(c *Term) {
	if c.Op != OpULt && c.Op != OpULe {
		return
	}
	a, b := c.A, c.B
	strict := c.Op == OpULt
	al, ah := e.bnd(a)
	bl, bh := e.bnd(b)
	_ = al
	_ = bh
	// a < b  or a <= b
	if !a.IsConst() {
		hi := bh
		if strict {
			if hi == 0 {
				return
			}
			hi--
		}
		e.setBnd(a, 0, hi)
	}
	if !b.IsConst() {
		lo := al
		if strict {
			if lo == ^uint64(0) {
				return
			}
			lo++
		}
		e.setBnd(b, lo, ^uint64(0))
	}
	_ = bl
	_ = ah
}

// foldB folds a condition using learned bounds and literals.
func (e *Exec) foldB(c *Term) *Term {
	if c.IsConst() {
		return c
	}
	if e.lits[c] {
		return tTrue
	}
	switch c.Op {
	case OpNot:
		if e.lits[c.A] {
			return tFalse
		}
		r := e.foldB(c.A)
		if r != c.A {
			return Not(r)
		}
	case OpAnd:
		a, b := e.foldB(c.A), e.foldB(c.B)
		if a != c.A || b != c.B {
			return And(a, b)
		}
	case OpOr:
		a, b := e.foldB(c.A), e.foldB(c.B)
		if a != c.A || b != c.B {
			return Or(a, b)
		}
	case OpEq:
		if c.A.W > 0 {
			l0, h0 := e.bnd(c.A)
			l1, h1 := e.bnd(c.B)
			if h0 < l1 || h1 < l0 {
				return tFalse
			}
		}
	case OpULt:
		l0, h0 := e.bnd(c.A)
		l1, h1 := e.bnd(c.B)
		if h0 < l1 {
			return tTrue
		}
		if l0 >= h1 {
			return tFalse
		}
	case OpULe:
		l0, h0 := e.bnd(c.A)
		l1, h1 := e.bnd(c.B)
		if h0 <= l1 {
			return tTrue
		}
		if l0 > h1 {
			return tFalse
		}
	}
	if e.lits[Not(c)] {
		return tFalse
	}
	return c
}

func (e *Exec) learn(c *Term) {
	if c.IsConst() {
		return
	}
	e.lits[c] = true
	switch c.Op {
	case OpAnd:
		e.learn(c.A)
		e.learn(c.B)
		return
	case OpNot:
		if c.A.Op == OpOr {
			e.learn(Not(c.A.A))
			e.learn(Not(c.A.B))
			return
		}
	case OpEq:
		if c.A.W > 0 {
			if c.B.IsConst() {
				e.learnEq(c.A, c.B.V)
			} else if c.A.IsConst() {
				e.learnEq(c.B, c.A.V)
			}
		}
	}
	e.learnBounds(c)
}

func (e *Exec) invalidateModelIfNot(c *Term) {
	if e.model != nil {
		if v, ok := e.modelSays(c); !ok || !v {
			e.model = nil
		}
	}
}

// ---------- equality substitution ----------

func rebuild(t *Term, a, b, c *Term) *Term {
	switch t.Op {
	case OpNot:
		return Not(a)
	case OpAnd:
		return And(a, b)
	case OpOr:
		return Or(a, b)
	case OpEq:
		return Eq(a, b)
	case OpIte:
		return Ite(a, b, c)
	case OpZExt:
		return ZExt(a, t.W)
	case OpSExt:
		return SExt(a, t.W)
	case OpExtract:
		return Extract(a, int(t.V), t.W)
	case OpConcat:
		return Concat(a, b)
	case OpULt, OpULe, OpSLt, OpSLe:
		return Cmp(t.Op, a, b)
	}
	return BinBV(t.Op, a, b)
}

func (e *Exec) subst(t *Term) *Term {
	if len(e.eqs) == 0 || t.Op == OpConst {
		return t
	}
	if r, ok := e.eqs[t]; ok {
		return r
	}
	if t.Op == OpVar {
		return t
	}
	if r, ok := e.substMemo[t]; ok {
		return r
	}
	var a, b, c *Term
	changed := false
	if t.A != nil {
		a = e.subst(t.A)
		changed = changed || a != t.A
	}
	if t.B != nil {
		b = e.subst(t.B)
		changed = changed || b != t.B
	}
	if t.C != nil {
		c = e.subst(t.C)
		changed = changed || c != t.C
	}
	r := t
	if changed {
		r = rebuild(t, a, b, c)
	}
	e.substMemo[t] = r
	return r
}

func (e *Exec) learnEq(t *Term, v uint64) {
	if t.IsConst() {
		return
	}
	if old, ok := e.eqs[t]; ok && old.V == v {
		return
	}
	e.eqs[t] = BV(t.W, v)
	e.substMemo = map[*Term]*Term{}
	if t.Op == OpZExt {
		e.learnEq(t.A, v)
	}
	if t.Op == OpConcat {
		e.learnEq(t.A, v>>uint(t.B.W))
		e.learnEq(t.B, v&mask(t.B.W))
	}
}

// simp applies path knowledge to a term.
func (e *Exec) simp(t *Term) *Term { return e.subst(t) }

// ---------- decisions ----------

func (e *Exec) pushAssert(c *Term) {
	e.s.Push()
	e.s.Assert(c)
	e.noteAsserted(c)
	e.learn(c)
	e.invalidateModelIfNot(c)
}

func (e *Exec) checkBudget() {
	if e.maxInstr > 0 && e.instrPath > e.maxInstr {
		panic(pathEnd{"INSTR-BUDGET"})
	}
}

// branch decides a (possibly symbolic) condition.
func (e *Exec) branch(c *Term) bool {
	if c.IsConst() {
		return c.V != 0
	}
	c = e.foldB(e.subst(c))
	if c.IsConst() {
		return c.V != 0
	}
	if e.spec > 0 {
		panic(specAbort{})
	}
	if e.pos < len(e.trace) {
		d := e.trace[e.pos]
		e.pos++
		if d.kind != 'b' {
			panic(fmt.Sprintf("trace mismatch: expected branch, have %c", d.kind))
		}
		if d.val != 0 {
			e.pushAssert(c)
		} else {
			e.pushAssert(Not(c))
		}
		for _, u := range d.uniq {
			e.applyUniq(u)
		}
		return d.val != 0
	}
	var ft, ff string
	if e.model == nil && e.modelWorthIt() {
		if e.s.Check() == "sat" {
			e.fetchModel()
		}
	}
	if v, ok := e.modelSays(c); ok {
		e.ModelHits++
		if v {
			ft = "sat"
			ff = e.s.CheckWith(Not(c))
		} else {
			ff = "sat"
			ft = e.s.CheckWith(c)
		}
	} else {
		ft = e.s.CheckWith(c)
		if ft == "unsat" {
			ff = "sat" // path condition is satisfiable by construction
		} else {
			ff = e.s.CheckWith(Not(c))
		}
	}
	if ft == "unknown" {
		e.BrUnknown++
		ft = "sat"
	}
	if ff == "unknown" {
		e.BrUnknown++
		ff = "sat"
	}
	var take bool
	switch {
	case ft == "sat" && ff == "sat":
		alt := append(append([]decision{}, e.trace...), decision{kind: 'b', val: 0})
		e.work = append(e.work, alt)
		take = true
		if e.verbose {
			if e.forkSites == nil {
				e.forkSites = map[string]int{}
			}
			e.forkSites[e.curSite]++
		}
	case ft == "sat":
		take = true
		e.noteForced(c)
	case ff == "sat":
		take = false
		e.noteForced(c)
	default:
		panic(pathEnd{"infeasible"})
	}
	v := uint64(0)
	if take {
		v = 1
	}
	pend := e.pendingUniq
	e.pendingUniq = nil
	e.trace = append(e.trace, decision{kind: 'b', val: v, uniq: pend})
	e.pos++
	if take {
		e.pushAssert(c)
	} else {
		e.pushAssert(Not(c))
	}
	for _, u := range pend {
		e.applyUniq(u)
	}
	return take
}

func collectVars(t *Term, seen map[*Term]bool, out *[]*Term, budget *int) {
	if t == nil || seen[t] || *budget <= 0 {
		return
	}
	seen[t] = true
	*budget--
	if t.Op == OpVar {
		*out = append(*out, t)
		return
	}
	collectVars(t.A, seen, out, budget)
	collectVars(t.B, seen, out, budget)
	collectVars(t.C, seen, out, budget)
}

// noteForced is called when a branch turned out to have only one feasible side.  After a few
// forced outcomes at the same site on one path, the variables of the condition are tested for
// having a unique value under the path condition; unique ones are substituted, which turns
// loops controlled by them into concrete execution.
func (e *Exec) noteForced(c *Term) {
	if e.forcedPath == nil {
		e.forcedPath = map[string]int{}
	}
	e.forcedPath[e.curSite]++
	if n := e.forcedPath[e.curSite]; n == 3 || n == 50 {
		var vars []*Term
		budget := 200
		collectVars(c, map[*Term]bool{}, &vars, &budget)
		for _, v := range vars {
			if _, known := e.eqs[v]; known || e.uniqTried[v] {
				continue
			}
			if e.uniqTried == nil {
				e.uniqTried = map[*Term]bool{}
			}
			e.uniqTried[v] = true
			if e.model == nil {
				if e.s.Check() != "sat" {
					return
				}
				e.fetchModel()
			}
			mv, ok := e.model[v]
			if !ok {
				continue
			}
			if e.s.CheckWith(Not(Eq(v, BV64orBool(v.W, mv)))) == "unsat" {
				e.Uniq++
				e.pendingUniq = append(e.pendingUniq, uniqFact{v, mv})
			}
		}
	}
	if !e.verbose {
		return
	}
	if e.forced == nil {
		e.forced = map[string]int{}
		e.forcedEx = map[string]string{}
	}
	e.forced[e.curSite]++
	if _, ok := e.forcedEx[e.curSite]; !ok {
		e.forcedEx[e.curSite] = c.str(5)
	}
}

func (e *Exec) applyUniq(u uniqFact) {
	if u.t.W == 0 {
		if u.v != 0 {
			e.learn(u.t)
		} else {
			e.learn(Not(u.t))
		}
	} else {
		e.learnEq(u.t, u.v)
	}
}

// concretize forks over the feasible values of t.
func (e *Exec) concretize(t *Term) uint64 {
	t = e.subst(t)
	if t.IsConst() {
		return t.V
	}
	if lo, hi := e.bnd(t); lo == hi {
		return lo
	}
	if e.spec > 0 {
		panic(specAbort{})
	}
	fix := func(v uint64) uint64 {
		e.s.Push()
		c := Eq(t, BV(t.W, v))
		e.s.Assert(c)
		e.noteAsserted(c)
		e.learn(c)
		e.learnEq(t, v)
		e.invalidateModelIfNot(c)
		return v
	}
	if e.pos < len(e.trace) {
		d := e.trace[e.pos]
		e.pos++
		if d.kind != 'p' {
			panic(fmt.Sprintf("trace mismatch: expected pick, have %c", d.kind))
		}
		if d.val == ^uint64(0) && d.excluded != nil { // need a fresh value excluding d.excluded
			e.s.Push()
			for _, x := range d.excluded {
				e.s.Assert(Not(Eq(t, BV(t.W, x))))
			}
			r := e.s.Check()
			if r != "sat" {
				e.s.Pop()
				if r == "unknown" {
					e.BrUnknown++
				}
				panic(pathEnd{"no more values"})
			}
			v := e.s.GetValue(t)
			e.s.Pop()
			ex := append(append([]uint64{}, d.excluded...), v)
			e.trace[e.pos-1] = decision{kind: 'p', val: v}
			alt := append(append([]decision{}, e.trace[:e.pos-1]...), decision{kind: 'p', val: ^uint64(0), excluded: ex})
			e.work = append(e.work, alt)
			return fix(v)
		}
		return fix(d.val)
	}
	var v uint64
	if mv, ok := evalTermModel(e, t); ok {
		v = mv
	} else {
		r := e.s.Check()
		if r != "sat" {
			panic(pathEnd{"infeasible at concretize"})
		}
		v = e.s.GetValue(t)
	}
	alt := append(append([]decision{}, e.trace...), decision{kind: 'p', val: ^uint64(0), excluded: []uint64{v}})
	e.work = append(e.work, alt)
	e.trace = append(e.trace, decision{kind: 'p', val: v})
	e.pos++
	if e.verbose {
		if e.forkSites == nil {
			e.forkSites = map[string]int{}
		}
		e.forkSites["pick@"+e.curSite+" in "+e.topFunc()]++
	}
	return fix(v)
}

func (e *Exec) topFunc() string {
	if n := len(e.stack); n > 0 {
		return e.stack[n-1].Name()
	}
	return "?"
}

func evalTermModel(e *Exec, t *Term) (uint64, bool) {
	if e.model == nil {
		return 0, false
	}
	return evalTerm(t, e.model, e.modelMemo)
}

func (e *Exec) choose(n int) int {
	if e.pos < len(e.trace) {
		d := e.trace[e.pos]
		e.pos++
		if d.kind != 'c' {
			panic(fmt.Sprintf("trace mismatch: expected choose, have %c", d.kind))
		}
		return int(d.val)
	}
	if e.spec > 0 {
		panic(specAbort{})
	}
	first := 0
	if e.firstChoice >= 0 && len(e.trace) == 0 {
		// sharding: the very first choice is fixed from the command line
		first = e.firstChoice
		if first >= n {
			panic(pathEnd{"shard out of range"})
		}
	} else {
		for i := n - 1; i >= 1; i-- {
			alt := append(append([]decision{}, e.trace...), decision{kind: 'c', val: uint64(i)})
			e.work = append(e.work, alt)
		}
	}
	e.trace = append(e.trace, decision{kind: 'c', val: uint64(first)})
	e.pos++
	return first
}

func (e *Exec) flatInputs() []inputRec {
	var out []inputRec
	for _, in := range e.inputs {
		if in.ts != nil {
			for i, t := range in.ts {
				out = append(out, inputRec{Tag: fmt.Sprintf("%s.%d", in.Tag, i), Kind: in.Kind, t: t})
			}
			continue
		}
		out = append(out, in)
	}
	return out
}

func (e *Exec) vector() []inputRec {
	inputs := e.flatInputs()
	out := make([]inputRec, len(inputs))
	var ts []*Term
	for _, in := range inputs {
		if in.t != nil && !in.t.IsConst() {
			ts = append(ts, in.t)
		}
	}
	var vs []uint64
	if len(ts) > 0 && e.s != nil {
		vs = e.s.GetValues(ts)
	}
	k := 0
	for i, in := range inputs {
		out[i] = in
		if in.t != nil {
			if in.t.IsConst() {
				out[i].V = in.t.V
			} else {
				out[i].V = vs[k]
				k++
			}
		}
	}
	return out
}

func (e *Exec) record(kind, what, site string) {
	key := kind + "|" + what + "|" + site + "|" + e.class
	if _, dup := e.Findings[key]; dup {
		return
	}
	f := &Finding{Kind: kind, What: what, Site: site, Class: e.class, PathNo: e.Paths, Observed: append([]string{}, e.observed...)}
	f.Vector = e.vector()
	e.Findings[key] = f
	if e.verbose {
		fmt.Fprintf(os.Stderr, "  FINDING %s %s @ %s class=%s\n", kind, what, site, e.class)
	}
}

// obligation: cond must hold on this path; if it can fail, record a finding; continue assuming cond.
func (e *Exec) obligation(cond *Term, kind, what, site string) {
	if cond.IsConst() && cond.V != 0 {
		return
	}
	cond = e.foldB(e.subst(cond))
	if cond.IsConst() && cond.V != 0 {
		return
	}
	if e.spec > 0 {
		panic(specAbort{})
	}
	e.Obligations++
	key := kind + "|" + what + "|" + site + "|" + e.class
	if cond.IsConst() { // definitely violated on this path
		if _, dup := e.Findings[key]; !dup {
			if e.s == nil || e.s.Check() == "sat" {
				e.record(kind, what, site)
			}
		}
		panic(pathEnd{"violated: " + what})
	}
	r := "sat"
	if v, ok := e.modelSays(cond); ok && !v {
		e.ModelHits++ // the cached model violates cond: no query needed
		if _, dup := e.Findings[key]; !dup {
			e.s.Push()
			e.s.Assert(Not(cond))
			if e.s.Check() == "sat" {
				e.record(kind, what, site)
			}
			e.s.Pop()
		}
	} else {
		e.s.Push()
		e.s.Assert(Not(cond))
		tq := time.Now()
		r = e.s.Check()
		if d := time.Since(tq); d > 2*time.Second && e.verbose {
			fmt.Fprintf(os.Stderr, "  SLOW obligation (%.1fs, %s) %s @ %s: %s\n", d.Seconds(), r, what, site, cond.str(7))
		}
		if r == "sat" {
			e.record(kind, what, site)
		} else if r == "unknown" {
			e.ObUnknown++
			if len(e.Samples) < 40 {
				e.Samples = append(e.Samples, "UNKNOWN obligation "+what+" @ "+site)
			}
		} else {
			e.Discharged++
			if len(e.Samples) < 12 && kind == "assert" {
				e.Samples = append(e.Samples, fmt.Sprintf("unsat: path#%d ∧ ¬[%s @ %s] : %s", e.Paths, what, site, cond.str(4)))
			}
		}
		e.s.Pop()
	}
	if r == "unsat" {
		e.learn(cond) // implied by the path condition; no need to assert
		return
	}
	// continue under cond (if feasible)
	e.s.Assert(cond)
	e.noteAsserted(cond)
	e.learn(cond)
	e.invalidateModelIfNot(cond)
	if e.model == nil {
		rr := e.s.Check()
		if rr == "unsat" {
			panic(pathEnd{"violated on all values: " + what})
		}
		if rr == "sat" && e.modelWorthIt() {
			e.fetchModel()
		}
	}
}

func (e *Exec) assume(c *Term, label string) {
	if c.IsConst() {
		if c.V == 0 {
			panic(pathEnd{"assume false"})
		}
		return
	}
	c = e.foldB(e.subst(c))
	if c.IsConst() {
		if c.V == 0 {
			panic(pathEnd{"assume false"})
		}
		return
	}
	if e.spec > 0 {
		panic(specAbort{})
	}
	e.s.Assert(c)
	e.noteAsserted(c)
	e.learn(c)
	if v, ok := e.modelSays(c); ok && v {
		return
	}
	e.model = nil
	r := e.s.Check()
	if r == "unsat" {
		panic(pathEnd{"assume infeasible"})
	}
	if r == "sat" && e.modelWorthIt() {
		e.fetchModel()
	}
}

func (e *Exec) fresh(tag, kind string, w int) *Term {
	if e.concrete != nil {
		if e.cpos >= len(e.concrete) {
			panic(pathEnd{"concrete vector exhausted"})
		}
		v := e.concrete[e.cpos]
		e.cpos++
		t := BV64orBool(w, v)
		e.inputs = append(e.inputs, inputRec{Tag: tag, Kind: kind, t: t})
		return t
	}
	e.ndCount[tag]++
	// the width is part of the name: the same tag may be used with different types on different paths, and the
	// solver keeps declarations across paths
	name := fmt.Sprintf("%s!%d.w%d", sanitize(tag), e.ndCount[tag], w)
	v := Var(name, w)
	e.inputs = append(e.inputs, inputRec{Tag: tag, Kind: kind, t: v})
	return v
}

var bytesCache = map[string][]*Term{}

// freshBytes creates a block of n symbolic bytes (names cached across paths).
func (e *Exec) freshBytes(tag string, n int) []*Term {
	if e.concrete != nil {
		ts := make([]*Term, n)
		for i := range ts {
			ts[i] = e.fresh(tag, "u8", 8)
		}
		return ts
	}
	e.ndCount[tag]++
	key := fmt.Sprintf("%s!%d/%d", tag, e.ndCount[tag], n)
	ts, ok := bytesCache[key]
	if !ok {
		ts = make([]*Term, n)
		base := sanitize(tag)
		for i := range ts {
			ts[i] = Var(fmt.Sprintf("%s.%d!%d", base, i, e.ndCount[tag]), 8)
		}
		bytesCache[key] = ts
	}
	e.inputs = append(e.inputs, inputRec{Tag: tag, Kind: "u8", ts: ts})
	return ts
}

func BV64orBool(w int, v uint64) *Term {
	if w == 0 {
		return Bool(v != 0)
	}
	return BV(w, v)
}

func sanitize(s string) string {
	var sb strings.Builder
	for _, c := range s {
		if c >= 'a' && c <= 'z' || c >= 'A' && c <= 'Z' || c >= '0' && c <= '9' || c == '_' || c == '.' {
			sb.WriteRune(c)
		} else {
			sb.WriteByte('_')
		}
	}
	return "v_" + sb.String()
}

// ---------- exploration ----------

func (e *Exec) resetPath() {
	if len(e.gs) > 0 {
		e.killGoroutines()
	} else {
		e.initGoroutines()
	}
	for i := len(e.undo) - 1; i >= 0; i-- {
		e.undo[i]()
	}
	e.undo = nil
	e.pos = 0
	e.inputs = nil
	e.lits = map[*Term]bool{}
	e.eqs = map[*Term]*Term{}
	e.bounds = map[*Term][2]uint64{}
	e.substMemo = map[*Term]*Term{}
	e.model = nil
	e.ndCount = map[string]int{}
	e.instrPath = 0
	e.class = ""
	e.observed = nil
	e.spec = 0
	e.panicking = nil
	e.frozen = 0
	e.frozenMap = 0
	e.mapOrder = false
	e.allocBytes = 0
	e.cpos = 0
	e.cutBound = 0
	e.unwind = e.defaultUnwind
	if e.unwind == 0 {
		e.unwind = 100000
	}
	e.aliases = nil
	e.bigMapOrder = -1
	e.pendingUniq = nil
	e.stack = e.stack[:0]
	e.pcVars = nil
	e.pcVarSet = map[*Term]bool{}
	e.pathReached = nil
	e.forcedPath = nil
	e.uniqTried = nil
	e.objN = e.initDone
	e.mapN = e.initMap
	if e.s != nil {
		e.s.PopTo(0)
		e.s.Push()
	}
}

type PathOutcome struct {
	End string
}

// runPath executes the harness once along e.trace (extending it at the end).
func (e *Exec) runPath(h *ssa.Function) (end string) {
	e.resetPath()
	defer func() {
		if r := recover(); r != nil {
			switch x := r.(type) {
			case pathEnd:
				end = x.reason
				if strings.HasPrefix(x.reason, "CUT") {
					e.Cuts++
				}
				if strings.HasPrefix(x.reason, "UNWIND") || x.reason == "INSTR-BUDGET" {
					if e.s == nil || e.s.Check() == "sat" {
						e.record("unwind", x.reason, "")
					}
				}
			case *goPanic:
				if e.s == nil || e.s.Check() == "sat" {
					e.record("panic", "panic: "+describePanic(x.val), x.site)
				}
				end = "panic"
			default:
				panic(r)
			}
		}
	}()
	e.callFn(h, nil, nil)
	if e.s != nil && len(e.PathSamples) < e.wantSamples {
		if e.s.Check() == "sat" {
			e.PathSamples = append(e.PathSamples, PathSample{Vector: e.vector(), Reached: append([]string{}, e.pathReached...), End: "ok"})
		}
	}
	return "ok"
}

func describePanic(v Value) string {
	if iv, ok := v.(*IfaceV); ok {
		switch x := iv.v.(type) {
		case StrV:
			return string(x)
		case *Ptr:
			if sv, ok := x.obj.val.(*StructV); ok && len(sv.f) > 0 {
				if s, ok := sv.f[0].(StrV); ok {
					return string(s)
				}
			}
		}
		return iv.t.String()
	}
	return describe(v)
}

// Explore runs the harness over all feasible paths within the budgets.
func (e *Exec) Explore(h *ssa.Function) {
	e.harness = h.Name()
	e.work = [][]decision{{}}
	t0 := time.Now()
	ends := map[string]int{}
	for len(e.work) > 0 {
		if e.maxPaths > 0 && e.Paths >= e.maxPaths {
			e.Exhausted = fmt.Sprintf("path budget %d", e.maxPaths)
			break
		}
		if !e.deadline.IsZero() && time.Now().After(e.deadline) {
			e.Exhausted = "time budget"
			break
		}
		tr := e.work[len(e.work)-1]
		e.work = e.work[:len(e.work)-1]
		e.trace = tr
		end := e.runPath(h)
		if i := strings.Index(end, ":"); i > 0 {
			end = end[:i]
		}
		ends[end]++
		e.Paths++
		if e.verbose && e.Paths%200 == 0 {
			fmt.Fprintf(os.Stderr, "  .. %s paths=%d pending=%d queries=%d solver=%.1fs wall=%.1fs instrs=%d terms=%d findings=%d\n", e.harness, e.Paths, len(e.work),
				e.s.Queries, e.s.Time.Seconds(), time.Since(t0).Seconds(), e.Instrs, termCount, len(e.Findings))
		}
	}
	e.resetPath()
	if e.verbose {
		var ks []string
		for k, v := range ends {
			ks = append(ks, fmt.Sprintf("%s=%d", k, v))
		}
		sort.Strings(ks)
		fmt.Fprintf(os.Stderr, "  path ends: %s\n", strings.Join(ks, " "))
		type kv struct {
			k string
			v int
		}
		var fs []kv
		for k, v := range e.forced {
			fs = append(fs, kv{k, v})
		}
		sort.Slice(fs, func(i, j int) bool { return fs[i].v > fs[j].v })
		for i, f := range fs {
			if i >= 12 {
				break
			}
			fmt.Fprintf(os.Stderr, "  forced %6d  %s   e.g. %s\n", f.v, f.k, e.forcedEx[f.k])
		}
		fs = fs[:0]
		for k, v := range e.forkSites {
			fs = append(fs, kv{k, v})
		}
		sort.Slice(fs, func(i, j int) bool { return fs[i].v > fs[j].v })
		for i, f := range fs {
			if i >= 15 {
				break
			}
			fmt.Fprintf(os.Stderr, "  forks  %6d  %s\n", f.v, f.k)
		}
	}
}
