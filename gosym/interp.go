package main

import (
	"fmt"
	"go/constant"
	"go/token"
	"go/types"
	"math"
	"os"
	"strings"

	"golang.org/x/tools/go/ssa"
)

type getter func(fr *frame) Value

type cphi struct {
	dst   int
	edges []getter
}

type cblock struct {
	b      *ssa.BasicBlock
	phis   []cphi
	instrs []func(fr *frame)
	// terminator
	kind    byte // 'j' jump, 'i' if, 'r' return, 'p' panic, 'x' none (unreachable)
	cond    getter
	succ    [2]*cblock
	results []getter
	pval    getter
	psite   string
	specOK  bool // block consists of speculable instructions and ends in a jump
	shadow  *cblock
}

type cfunc struct {
	fn       *ssa.Function
	nregs    int
	blocks   []*cblock
	params   []int
	freevars []int
	hasDefer bool
	recover  *cblock
}

type frame struct {
	cf      *cfunc
	regs    []Value
	defers  []func()
	visits  []int32
	symLoop map[int]int // per loop-header block: iterations decided on a symbolic condition (verifLoopCut)
}

type compiler struct {
	e     *Exec
	cf    *cfunc
	slots map[ssa.Value]int
}

var globals = map[*ssa.Global]*Object{}

func site(in ssa.Instruction) string {
	fn := in.Parent()
	p := fn.Prog.Fset.Position(in.Pos())
	name := fn.RelString(nil)
	if !p.IsValid() {
		return name
	}
	return fmt.Sprintf("%s (%s:%d)", name, shortFile(p.Filename), p.Line)
}

func shortFile(s string) string {
	if i := strings.LastIndex(s, "/"); i >= 0 {
		return s[i+1:]
	}
	return s
}

func constVal(c *ssa.Const) Value {
	t := c.Type()
	if c.Value == nil {
		return zeroOf(t)
	}
	if b, ok := t.Underlying().(*types.Basic); ok {
		switch {
		case b.Info()&types.IsString != 0:
			return StrV(constant.StringVal(c.Value))
		case b.Info()&types.IsBoolean != 0:
			return Bool(constant.BoolVal(c.Value))
		case b.Info()&types.IsInteger != 0:
			w := widthOf(t)
			if i, ok := constant.Int64Val(constant.ToInt(c.Value)); ok {
				return BV(w, uint64(i))
			}
			u, _ := constant.Uint64Val(constant.ToInt(c.Value))
			return BV(w, u)
		case b.Info()&types.IsFloat != 0:
			f, _ := constant.Float64Val(c.Value)
			if b.Kind() == types.Float32 {
				f = float64(float32(f))
			}
			return concF(f)
		}
	}
	panic("const: unsupported " + c.String())
}

func (e *Exec) globalObj(g *ssa.Global) *Object {
	if o, ok := globals[g]; ok {
		return o
	}
	el := g.Type().(*types.Pointer).Elem()
	e.objN++
	o := &Object{id: -len(globals) - 1, val: zeroOf(el), site: "global " + g.String()}
	e.objN--
	globals[g] = o
	return o
}

func (c *compiler) slot(v ssa.Value) int {
	if s, ok := c.slots[v]; ok {
		return s
	}
	s := c.cf.nregs
	c.cf.nregs++
	c.slots[v] = s
	return s
}

func (c *compiler) get(v ssa.Value) getter {
	switch x := v.(type) {
	case *ssa.Const:
		val := constVal(x)
		return func(*frame) Value { return val }
	case *ssa.Function:
		fv := &FuncV{fn: x}
		return func(*frame) Value { return fv }
	case *ssa.Global:
		e := c.e
		return func(*frame) Value { return &Ptr{obj: e.globalObj(x)} }
	case *ssa.Builtin:
		return func(*frame) Value { return x }
	}
	s := c.slot(v)
	return func(fr *frame) Value { return fr.regs[s] }
}

func (e *Exec) compile(fn *ssa.Function) *cfunc {
	if cf, ok := e.cfn[fn]; ok {
		return cf
	}
	if fn.Blocks == nil {
		unsup("no body for %s", fn.String())
	}
	cf := &cfunc{fn: fn}
	e.cfn[fn] = cf
	c := &compiler{e: e, cf: cf, slots: map[ssa.Value]int{}}
	for _, p := range fn.Params {
		cf.params = append(cf.params, c.slot(p))
	}
	for _, p := range fn.FreeVars {
		cf.freevars = append(cf.freevars, c.slot(p))
	}
	cf.blocks = make([]*cblock, len(fn.Blocks))
	for i, b := range fn.Blocks {
		cf.blocks[i] = &cblock{b: b}
	}
	for i, b := range fn.Blocks {
		c.compileBlock(cf.blocks[i], b)
	}
	if fn.Recover != nil {
		cf.recover = cf.blocks[fn.Recover.Index]
	}
	return cf
}

func (c *compiler) compileBlock(cb *cblock, b *ssa.BasicBlock) {
	cb.kind = 'x'
	cb.specOK = true
	for _, in := range b.Instrs {
		switch x := in.(type) {
		case *ssa.Phi:
			ph := cphi{dst: c.slot(x)}
			for _, ed := range x.Edges {
				ph.edges = append(ph.edges, c.get(ed))
			}
			cb.phis = append(cb.phis, ph)
		case *ssa.Jump:
			cb.kind = 'j'
			cb.succ[0] = c.cf.blocks[b.Succs[0].Index]
		case *ssa.If:
			cb.kind = 'i'
			cb.psite = fmt.Sprintf("%s#%d(%s)", c.cf.fn.Name(), b.Index, b.Comment)
			if p := c.cf.fn.Prog.Fset.Position(x.Cond.Pos()); p.IsValid() {
				cb.psite += fmt.Sprintf(":%d", p.Line)
			}
			cb.cond = c.get(x.Cond)
			cb.succ[0] = c.cf.blocks[b.Succs[0].Index]
			cb.succ[1] = c.cf.blocks[b.Succs[1].Index]
		case *ssa.Return:
			cb.kind = 'r'
			for _, r := range x.Results {
				cb.results = append(cb.results, c.get(r))
			}
		case *ssa.Panic:
			cb.kind = 'p'
			cb.pval = c.get(x.X)
			cb.psite = site(in)
		case *ssa.DebugRef:
		default:
			f, spec := c.compileInstr(in)
			if !spec {
				cb.specOK = false
			}
			cb.instrs = append(cb.instrs, f)
		}
	}
	if cb.kind != 'j' {
		cb.specOK = false
	}
}

// callFn runs an SSA function.
func (e *Exec) callFn(fn *ssa.Function, args []Value, bind []Value) Value {
	cf := e.compile(fn)
	if !e.funcsSeen[fn] {
		e.funcsSeen[fn] = true
	}
	fr := &frame{cf: cf, regs: make([]Value, cf.nregs), visits: make([]int32, len(cf.blocks))}
	if len(args) != len(cf.params) {
		panic(fmt.Sprintf("call %s: %d args for %d params", fn, len(args), len(cf.params)))
	}
	for i, s := range cf.params {
		fr.regs[s] = args[i]
	}
	for i, s := range cf.freevars {
		fr.regs[s] = bind[i]
	}
	depth := len(e.stack)
	e.stack = append(e.stack, fn)
	if depth > 3000 {
		panic(pathEnd{"UNWIND recursion depth exceeded in " + fn.String()})
	}
	var r Value
	if cf.hasDefer {
		r = e.runWithDefers(fr)
	} else {
		r = e.run(fr, cf.blocks[0], nil)
	}
	e.stack = e.stack[:depth]
	return r
}

func (e *Exec) stackTrace() string {
	var sb strings.Builder
	n := len(e.stack)
	for i := n - 1; i >= 0 && i >= n-12; i-- {
		sb.WriteString("\n    at " + e.stack[i].String())
	}
	return sb.String()
}

func (e *Exec) runWithDefers(fr *frame) (ret Value) {
	defer func() {
		r := recover()
		if r == nil {
			return
		}
		gp, ok := r.(*goPanic)
		if !ok {
			panic(r)
		}
		// run pending defers while panicking
		saved := e.panicking
		e.panicking = gp
		for len(fr.defers) > 0 {
			d := fr.defers[len(fr.defers)-1]
			fr.defers = fr.defers[:len(fr.defers)-1]
			d()
		}
		if e.panicking != nil {
			e.panicking = saved
			panic(gp)
		}
		e.panicking = saved
		// recovered: resume at the recover block
		if fr.cf.recover != nil {
			ret = e.run(fr, fr.cf.recover, nil)
		} else {
			res := fr.cf.fn.Signature.Results()
			switch res.Len() {
			case 0:
				ret = nil
			case 1:
				ret = zeroOf(res.At(0).Type())
			default:
				ret = zeroOf(res)
			}
		}
	}()
	return e.run(fr, fr.cf.blocks[0], nil)
}

func (e *Exec) run(fr *frame, blk *cblock, prev *cblock) Value {
	var phiTmp [8]Value
	for {
		idx := blk.b.Index
		fr.visits[idx]++
		if int(fr.visits[idx]) > e.MaxUnwind {
			e.MaxUnwind = int(fr.visits[idx])
		}
		if int(fr.visits[idx]) > e.unwind {
			panic(pathEnd{"UNWIND bound exceeded in " + fr.cf.fn.String()})
		}
		if len(blk.phis) > 0 {
			pi := -1
			for i, pb := range blk.b.Preds {
				if prev != nil && pb == prev.b {
					pi = i
					break
				}
			}
			if pi < 0 {
				panic("phi: predecessor not found in " + fr.cf.fn.String())
			}
			tmp := phiTmp[:0]
			for _, ph := range blk.phis {
				tmp = append(tmp, ph.edges[pi](fr))
			}
			for i, ph := range blk.phis {
				fr.regs[ph.dst] = tmp[i]
			}
		}
		n := int64(len(blk.instrs)) + 1
		e.Instrs += n
		e.instrPath += n
		for _, f := range blk.instrs {
			f(fr)
		}
		switch blk.kind {
		case 'j':
			prev, blk = blk, blk.succ[0]
		case 'i':
			c := blk.cond(fr).(*Term)
			if !c.IsConst() {
				if e.maxInstr > 0 && e.instrPath > e.maxInstr {
					panic(pathEnd{"INSTR-BUDGET"})
				}
				if nb, ok := e.tryMerge(fr, blk, c); ok {
					prev, blk = nb.prev, nb.blk
					continue
				}
			}
			e.curSite = blk.psite
			if e.cutBound > 0 && !c.IsConst() && strings.HasSuffix(blk.b.Comment, ".loop") {
				if fr.symLoop == nil {
					fr.symLoop = map[int]int{}
				}
				fr.symLoop[idx]++
				if fr.symLoop[idx] > e.cutBound {
					panic(pathEnd{"CUT loop with input-dependent trip count longer than the stated bound"})
				}
			}
			if e.branch(c) {
				prev, blk = blk, blk.succ[0]
			} else {
				prev, blk = blk, blk.succ[1]
			}
		case 'r':
			switch len(blk.results) {
			case 0:
				return nil
			case 1:
				return blk.results[0](fr)
			default:
				t := make(TupleV, len(blk.results))
				for i, r := range blk.results {
					t[i] = r(fr)
				}
				return t
			}
		case 'p':
			if e.spec > 0 {
				panic(specAbort{})
			}
			panic(&goPanic{val: blk.pval(fr), site: blk.psite})
		default:
			panic("fell off block in " + fr.cf.fn.String())
		}
		if e.instrPath > e.maxInstr && e.maxInstr > 0 {
			panic(pathEnd{"INSTR-BUDGET"})
		}
	}
}

type mergeRes struct{ prev, blk *cblock }

// tryMerge performs if-conversion of small side-effect-free diamonds/triangles:
//
//	if c goto T else F;  T: pure...; jump J;  F: pure...; jump J   (either side may be J itself)
//
// Both sides are executed speculatively and the phis of J become ite terms.
func (e *Exec) tryMerge(fr *frame, blk *cblock, c *Term) (mergeRes, bool) {
	if e.noMerge {
		return mergeRes{}, false
	}
	t, f := blk.succ[0], blk.succ[1]
	var join *cblock
	switch {
	case t.specOK && f.specOK && t.succ[0] == f.succ[0] && len(t.b.Preds) == 1 && len(f.b.Preds) == 1:
		join = t.succ[0]
	case t.specOK && t.succ[0] == f && len(t.b.Preds) == 1:
		join = f
	case f.specOK && f.succ[0] == t && len(f.b.Preds) == 1:
		join = t
	default:
		return mergeRes{}, false
	}
	if join == blk || len(join.phis) > 8 {
		return mergeRes{}, false
	}
	c = e.foldB(e.subst(c))
	if c.IsConst() {
		return mergeRes{}, false
	}
	// run side blocks speculatively
	runSide := func(side *cblock) (ok bool) {
		if side == join {
			return true
		}
		if len(side.phis) > 0 {
			return false
		}
		e.spec++
		defer func() {
			e.spec--
			if r := recover(); r != nil {
				if _, isAbort := r.(specAbort); isAbort {
					ok = false
					return
				}
				if _, isUnsup := r.(unsupported); isUnsup {
					ok = false
					return
				}
				panic(r)
			}
		}()
		for _, fn := range side.instrs {
			fn(fr)
		}
		return true
	}
	if !runSide(t) || !runSide(f) {
		e.SpecFail++
		return mergeRes{}, false
	}
	// determine the phi edge indices
	predOf := func(side *cblock) *ssa.BasicBlock {
		if side == join {
			return blk.b
		}
		return side.b
	}
	pt, pf := -1, -1
	for i, pb := range join.b.Preds {
		if pb == predOf(t) && pt < 0 {
			pt = i
		} else if pb == predOf(f) && pf < 0 {
			pf = i
		}
	}
	if pt < 0 || pf < 0 {
		e.SpecFail++
		return mergeRes{}, false
	}
	vals := make([]Value, len(join.phis))
	for i, ph := range join.phis {
		a, b := ph.edges[pt](fr), ph.edges[pf](fr)
		m, ok := mergeVal(c, a, b)
		if !ok {
			e.SpecFail++
			return mergeRes{}, false
		}
		vals[i] = m
	}
	e.SpecOK++
	// enter join with merged phis: emulate by assigning and skipping its phi step
	for i, ph := range join.phis {
		fr.regs[ph.dst] = vals[i]
	}
	return e.enterAfterPhis(fr, join), true
}

// enterAfterPhis executes the body of blk (whose phis are already assigned) up to its terminator
// by creating a phi-less shadow block.
func (e *Exec) enterAfterPhis(fr *frame, blk *cblock) mergeRes {
	sh := blk.shadow
	if sh == nil {
		cp := *blk
		cp.phis = nil
		sh = &cp
		blk.shadow = sh
	}
	return mergeRes{prev: nil, blk: sh}
}

func mergeVal(c *Term, a, b Value) (Value, bool) {
	switch x := a.(type) {
	case *Term:
		y, ok := b.(*Term)
		if !ok || x.W != y.W {
			return nil, false
		}
		return Ite(c, x, y), true
	case *FloatV:
		y, ok := b.(*FloatV)
		if !ok {
			return nil, false
		}
		var r Value
		okk := true
		func() {
			defer func() {
				if rr := recover(); rr != nil {
					if _, isU := rr.(unsupported); isU {
						okk = false
						return
					}
					panic(rr)
				}
			}()
			r = fIte(c, x, y)
		}()
		return r, okk
	case StrV:
		if y, ok := b.(StrV); ok && x == y {
			return a, true
		}
		if strLen(a) == strLen(b) {
			bs := make([]*Term, strLen(a))
			for i := range bs {
				bs[i] = Ite(c, strByte(a, i), strByte(b, i))
			}
			return mkStr(bs), true
		}
	case NilV:
		if _, ok := b.(NilV); ok {
			return a, true
		}
	case *Ptr:
		if y, ok := b.(*Ptr); ok && x.obj == y.obj && pathEq(x.path, y.path) && x.symIdx == y.symIdx {
			return a, true
		}
	case *SliceV:
		if y, ok := b.(*SliceV); ok && *x == *y {
			return a, true
		}
	}
	return nil, false
}

// ---------- instruction compilation ----------

func (c *compiler) compileInstr(in ssa.Instruction) (run func(fr *frame), speculable bool) {
	e := c.e
	st := site(in)
	switch x := in.(type) {
	case *ssa.Alloc:
		dst := c.slot(x)
		el := x.Type().(*types.Pointer).Elem()
		return func(fr *frame) {
			fr.regs[dst] = &Ptr{obj: e.newObj(zeroOf(el), st)}
		}, true
	case *ssa.BinOp:
		dst := c.slot(x)
		a, b := c.get(x.X), c.get(x.Y)
		f := e.binopFn(x, st)
		spec := x.Op != token.QUO && x.Op != token.REM
		return func(fr *frame) { fr.regs[dst] = f(a(fr), b(fr)) }, spec
	case *ssa.UnOp:
		dst := c.slot(x)
		a := c.get(x.X)
		switch x.Op {
		case token.MUL:
			return func(fr *frame) { fr.regs[dst] = e.load(a(fr), st) }, true
		case token.SUB:
			return func(fr *frame) {
				switch t := a(fr).(type) {
				case *Term:
					fr.regs[dst] = BinBV(OpSub, BV(t.W, 0), t)
				case *FloatV:
					fr.regs[dst] = fNeg(t)
				default:
					panic("neg of non-number")
				}
			}, true
		case token.NOT:
			return func(fr *frame) { fr.regs[dst] = Not(a(fr).(*Term)) }, true
		case token.XOR:
			return func(fr *frame) {
				t := a(fr).(*Term)
				fr.regs[dst] = BinBV(OpBXor, t, BV(t.W, ^uint64(0)))
			}, true
		case token.ARROW:
			commaOk := x.CommaOk
			return func(fr *frame) {
				v, ok := e.chanRecv(a(fr), st)
				if commaOk {
					fr.regs[dst] = TupleV{v, Bool(ok)}
				} else {
					fr.regs[dst] = v
				}
			}, false
		}
	case *ssa.Convert:
		dst := c.slot(x)
		a := c.get(x.X)
		f := e.convertFn(x.X.Type(), x.Type(), st)
		return func(fr *frame) { fr.regs[dst] = f(a(fr)) }, true
	case *ssa.ChangeType:
		dst := c.slot(x)
		a := c.get(x.X)
		return func(fr *frame) { fr.regs[dst] = a(fr) }, true
	case *ssa.ChangeInterface:
		dst := c.slot(x)
		a := c.get(x.X)
		return func(fr *frame) { fr.regs[dst] = a(fr) }, true
	case *ssa.MakeInterface:
		dst := c.slot(x)
		a := c.get(x.X)
		t := x.X.Type()
		return func(fr *frame) { fr.regs[dst] = &IfaceV{t: t, v: a(fr)} }, true
	case *ssa.MakeClosure:
		dst := c.slot(x)
		fn := x.Fn.(*ssa.Function)
		var bs []getter
		for _, b := range x.Bindings {
			bs = append(bs, c.get(b))
		}
		return func(fr *frame) {
			fv := &FuncV{fn: fn, bind: make([]Value, len(bs))}
			for i, b := range bs {
				fv.bind[i] = b(fr)
			}
			fr.regs[dst] = fv
		}, true
	case *ssa.MakeMap:
		dst := c.slot(x)
		return func(fr *frame) { fr.regs[dst] = e.newMap() }, true
	case *ssa.MakeSlice:
		dst := c.slot(x)
		ln, cp := c.get(x.Len), c.get(x.Cap)
		lt, ct := x.Len.Type(), x.Cap.Type()
		el := x.Type().Underlying().(*types.Slice).Elem()
		return func(fr *frame) {
			fr.regs[dst] = e.makeSlice(el, toInt64(ln(fr).(*Term), lt), toInt64(cp(fr).(*Term), ct), st)
		}, false
	case *ssa.Slice:
		dst := c.slot(x)
		base := c.get(x.X)
		var lo, hi, mx getter
		if x.Low != nil {
			lo = c.get(x.Low)
		}
		if x.High != nil {
			hi = c.get(x.High)
		}
		if x.Max != nil {
			mx = c.get(x.Max)
		}
		return func(fr *frame) { fr.regs[dst] = e.sliceOp(x, base(fr), lo, hi, mx, fr, st) }, true
	case *ssa.FieldAddr:
		dst := c.slot(x)
		a := c.get(x.X)
		fld := x.Field
		return func(fr *frame) {
			p, ok := a(fr).(*Ptr)
			if !ok {
				e.obligation(tFalse, "runtime", "nil pointer dereference", st)
			}
			if p.symIdx != nil {
				p = e.concretizePtr(p)
			}
			np := make([]int, len(p.path)+1)
			copy(np, p.path)
			np[len(p.path)] = fld
			fr.regs[dst] = &Ptr{obj: p.obj, path: np}
		}, true
	case *ssa.Field:
		dst := c.slot(x)
		a := c.get(x.X)
		fld := x.Field
		return func(fr *frame) { fr.regs[dst] = copyVal(a(fr).(*StructV).f[fld]) }, true
	case *ssa.IndexAddr:
		dst := c.slot(x)
		base, idx := c.get(x.X), c.get(x.Index)
		it := x.Index.Type()
		return func(fr *frame) { fr.regs[dst] = e.indexAddr(base(fr), toInt64(idx(fr).(*Term), it), st) }, true
	case *ssa.Index:
		dst := c.slot(x)
		base, idx := c.get(x.X), c.get(x.Index)
		it := x.Index.Type()
		return func(fr *frame) { fr.regs[dst] = e.indexVal(base(fr), toInt64(idx(fr).(*Term), it), st) }, true
	case *ssa.Lookup:
		dst := c.slot(x)
		m, k := c.get(x.X), c.get(x.Index)
		if isString(x.X.Type()) {
			it := x.Index.Type()
			return func(fr *frame) { fr.regs[dst] = e.indexVal(m(fr), toInt64(k(fr).(*Term), it), st) }, true
		}
		el := x.X.Type().Underlying().(*types.Map).Elem()
		commaOk := x.CommaOk
		return func(fr *frame) {
			var v Value
			found := false
			if mv, ok := m(fr).(*MapV); ok {
				v, found = e.mapGet(mv, k(fr))
			}
			if !found {
				v = zeroOf(el)
			}
			if commaOk {
				fr.regs[dst] = TupleV{v, Bool(found)}
			} else {
				fr.regs[dst] = v
			}
		}, false
	case *ssa.MapUpdate:
		m, k, v := c.get(x.Map), c.get(x.Key), c.get(x.Value)
		return func(fr *frame) {
			mv, ok := m(fr).(*MapV)
			if !ok {
				e.obligation(tFalse, "runtime", "assignment to entry in nil map", st)
			}
			e.mapSet(mv, k(fr), v(fr), st)
		}, false
	case *ssa.Range:
		dst := c.slot(x)
		a := c.get(x.X)
		return func(fr *frame) { fr.regs[dst] = e.rangeStart(a(fr)) }, false
	case *ssa.Next:
		dst := c.slot(x)
		a := c.get(x.Iter)
		return func(fr *frame) { fr.regs[dst] = e.rangeNext(a(fr).(*IterV)) }, false
	case *ssa.TypeAssert:
		dst := c.slot(x)
		a := c.get(x.X)
		return func(fr *frame) { fr.regs[dst] = e.typeAssert(x, a(fr), st) }, true
	case *ssa.Extract:
		dst := c.slot(x)
		a := c.get(x.Tuple)
		i := x.Index
		return func(fr *frame) { fr.regs[dst] = a(fr).(TupleV)[i] }, true
	case *ssa.Store:
		a, v := c.get(x.Addr), c.get(x.Val)
		return func(fr *frame) { e.store(a(fr), v(fr), st) }, false
	case *ssa.Call:
		dst := c.slot(x)
		f, spec := c.compileCall(x.Common(), in, st)
		fn := c.cf.fn
		if fn.Name() == "init" && fn.Pkg != nil && fn.Signature.Recv() == nil && !strings.HasPrefix(fn.Pkg.Pkg.Path(), "seehuhn.de/go/sfnt") {
			// package initialisers of dependencies are executed leniently: a call the engine cannot
			// model (templates, reflection, ...) leaves its result at the zero value
			rt := x.Type()
			return func(fr *frame) {
				depth := len(e.stack)
				defer func() {
					if r := recover(); r != nil {
						switch r.(type) {
						case pathEnd, *goPanic, specAbort:
							if !e.initPhase {
								panic(r)
							}
						}
						e.stack = e.stack[:depth]
						if os.Getenv("GOSYM_DEBUG") != "" {
							fmt.Fprintf(os.Stderr, "note: init of %s: skipped %s: %v\n", fn.Pkg.Pkg.Path(), st, r)
						}
						if tup, ok := rt.(*types.Tuple); ok && tup.Len() == 0 {
							fr.regs[dst] = nil
						} else {
							fr.regs[dst] = zeroOf(rt)
						}
					}
				}()
				fr.regs[dst] = f(fr)
			}, false
		}
		return func(fr *frame) { fr.regs[dst] = f(fr) }, spec
	case *ssa.Defer:
		c.cf.hasDefer = true
		f, _ := c.compileCallDeferred(x.Common(), in, st)
		return func(fr *frame) { fr.defers = append(fr.defers, f(fr)) }, false
	case *ssa.RunDefers:
		return func(fr *frame) {
			for len(fr.defers) > 0 {
				d := fr.defers[len(fr.defers)-1]
				fr.defers = fr.defers[:len(fr.defers)-1]
				d()
			}
		}, false
	case *ssa.Go:
		f, _ := c.compileCallDeferred(x.Common(), in, st)
		name := x.Common().String()
		if sf := x.Common().StaticCallee(); sf != nil {
			name = sf.String()
		}
		return func(fr *frame) { e.spawn(name+" started at "+st, f(fr)) }, false
	case *ssa.Send:
		ch, v := c.get(x.Chan), c.get(x.X)
		return func(fr *frame) { e.chanSend(ch(fr), v(fr), st) }, false
	case *ssa.MakeChan:
		dst := c.slot(x)
		sz := c.get(x.Size)
		el := x.Type().Underlying().(*types.Chan).Elem()
		return func(fr *frame) { fr.regs[dst] = e.makeChan(el, toInt64(sz(fr).(*Term), x.Size.Type()), st) }, false
	case *ssa.SliceToArrayPointer:
		dst := c.slot(x)
		a := c.get(x.X)
		return func(fr *frame) {
			s := a(fr).(*SliceV)
			if s.off != 0 {
				unsup("slice to array pointer with offset")
			}
			fr.regs[dst] = &Ptr{obj: s.obj}
		}, false
	}
	panic(fmt.Sprintf("unsupported instruction %T: %s", in, in))
}

func toInt64(t *Term, ty types.Type) *Term {
	if t.W == 64 {
		return t
	}
	if isSigned(ty) {
		return SExt(t, 64)
	}
	return ZExt(t, 64)
}

// ---------- memory ----------

func (e *Exec) concretizePtr(p *Ptr) *Ptr {
	i := int(e.concretize(p.symIdx))
	np := make([]int, len(p.path)+1)
	copy(np, p.path)
	np[len(p.path)] = p.base + i
	return &Ptr{obj: p.obj, path: np}
}

func (e *Exec) load(pv Value, st string) Value {
	p, ok := pv.(*Ptr)
	if !ok {
		e.obligation(tFalse, "runtime", "nil pointer dereference", st)
	}
	if p.symIdx == nil {
		return copyVal(navigate(p.obj.val, p.path))
	}
	arr := navigate(p.obj.val, p.path).(*ArrayV)
	if p.n == 0 {
		panic(pathEnd{"load from empty range"})
	}
	if _, scalar := arr.e[p.base].(*Term); !scalar || p.n > 300 {
		return e.load(e.concretizePtr(p), st)
	}
	idx := e.subst(p.symIdx)
	if idx.IsConst() {
		return arr.e[p.base+int(idx.V)]
	}
	lo, hi := e.bnd(idx)
	if hi >= uint64(p.n) {
		hi = uint64(p.n) - 1
	}
	var res *Term
	for i := int(hi); i >= int(lo); i-- {
		el := arr.e[p.base+i].(*Term)
		if res == nil {
			res = el
		} else {
			res = Ite(Eq(idx, BV(idx.W, uint64(i))), el, res)
		}
	}
	return res
}

// synchronised reports whether the current store happens inside sync.Once.Do or a sync.Mutex operation: such
// writes to shared memory are ordered by the synchronisation primitive and are not data races (lazy
// initialisation of library globals such as time.Local).
func (e *Exec) synchronised() bool {
	for i := len(e.stack) - 1; i >= 0; i-- {
		switch e.stack[i].String() {
		case "(*sync.Once).doSlow", "(*sync.Once).Do", "(*sync.Mutex).Lock", "(*sync.Mutex).Unlock":
			e.Assumes["stores inside sync.Once.Do / sync.Mutex operations are synchronised (not counted as shared writes)"] = true
			return true
		}
	}
	return false
}

func (e *Exec) noteWrite(o *Object, st string) {
	if e.frozen > 0 && o.id <= e.frozen && !e.synchronised() {
		e.obligation(tFalse, "assert", "write to shared memory", o.site+" <- "+st)
	}
	if o.id <= e.initDone {
		if e.dirty == nil {
			e.dirty = map[*Object]bool{}
		}
		if !e.dirty[o] {
			e.dirty[o] = true
			snap := copyVal(o.val)
			e.undo = append(e.undo, func() { o.val = snap; delete(e.dirty, o) })
		}
	}
}

func (e *Exec) store(pv Value, v Value, st string) {
	p, ok := pv.(*Ptr)
	if !ok {
		e.obligation(tFalse, "runtime", "nil pointer dereference", st)
	}
	if e.spec > 0 {
		panic(specAbort{})
	}
	e.noteWrite(p.obj, st)
	v = copyVal(v)
	if p.symIdx == nil {
		setAt(&p.obj.val, p.path, v)
		return
	}
	arr := navigate(p.obj.val, p.path).(*ArrayV)
	nv, scalar := v.(*Term)
	if !scalar || p.n > 300 {
		e.store(e.concretizePtr(p), v, st)
		return
	}
	idx := e.subst(p.symIdx)
	if idx.IsConst() {
		arr.e[p.base+int(idx.V)] = nv
		return
	}
	lo, hi := e.bnd(idx)
	if hi >= uint64(p.n) {
		hi = uint64(p.n) - 1
	}
	for i := int(lo); i <= int(hi); i++ {
		old := arr.e[p.base+i].(*Term)
		arr.e[p.base+i] = Ite(Eq(idx, BV(idx.W, uint64(i))), nv, old)
	}
}

func (e *Exec) indexAddr(base Value, idx *Term, st string) Value {
	e.curSite = st
	switch b := base.(type) {
	case *SliceV:
		if b.symLen != nil {
			unsup("element of a length-only slice accessed at %s", st)
		}
		e.obligation(Cmp(OpULt, idx, BV(64, uint64(b.len))), "runtime", "index out of range", st)
		idx = e.subst(idx)
		if idx.IsConst() {
			return &Ptr{obj: b.obj, path: []int{b.off + int(idx.V)}}
		}
		return &Ptr{obj: b.obj, symIdx: idx, base: b.off, n: b.len}
	case *Ptr: // pointer to array
		if b.symIdx != nil {
			b = e.concretizePtr(b)
		}
		arr := navigate(b.obj.val, b.path).(*ArrayV)
		e.obligation(Cmp(OpULt, idx, BV(64, uint64(len(arr.e)))), "runtime", "index out of range", st)
		idx = e.subst(idx)
		if idx.IsConst() {
			np := make([]int, len(b.path)+1)
			copy(np, b.path)
			np[len(b.path)] = int(idx.V)
			return &Ptr{obj: b.obj, path: np}
		}
		return &Ptr{obj: b.obj, path: b.path, symIdx: idx, base: 0, n: len(arr.e)}
	case NilV:
		e.obligation(tFalse, "runtime", "nil pointer dereference", st)
	}
	panic(fmt.Sprintf("IndexAddr on %T", base))
}

func (e *Exec) indexVal(base Value, idx *Term, st string) Value {
	switch b := base.(type) {
	case *ArrayV:
		e.obligation(Cmp(OpULt, idx, BV(64, uint64(len(b.e)))), "runtime", "index out of range", st)
		idx = e.subst(idx)
		if !idx.IsConst() {
			if _, scalar := b.e[0].(*Term); scalar && len(b.e) <= 300 {
				var res *Term
				for i := len(b.e) - 1; i >= 0; i-- {
					el := b.e[i].(*Term)
					if res == nil {
						res = el
					} else {
						res = Ite(Eq(idx, BV(64, uint64(i))), el, res)
					}
				}
				return res
			}
		}
		return copyVal(b.e[e.concretize(idx)])
	case StrV, *SStrV:
		n := strLen(b)
		e.obligation(Cmp(OpULt, idx, BV(64, uint64(n))), "runtime", "index out of range", st)
		idx = e.subst(idx)
		if !idx.IsConst() && n <= 300 {
			var res *Term
			for i := n - 1; i >= 0; i-- {
				el := strByte(b, i)
				if res == nil {
					res = el
				} else {
					res = Ite(Eq(idx, BV(64, uint64(i))), el, res)
				}
			}
			return res
		}
		return strByte(b, int(e.concretize(idx)))
	}
	panic(fmt.Sprintf("Index on %T", base))
}

const maxAllocElems = 1 << 22

func (e *Exec) makeSlice(el types.Type, n, cp *Term, st string) Value {
	e.curSite = st
	lim := e.allocLimitElems()
	e.obligation(Cmp(OpULe, n, BV(64, uint64(lim))), "runtime", "makeslice: len out of range or allocation beyond bound", st)
	if e.cutBound > 0 && !e.subst(n).IsConst() && e.concrete == nil {
		// verifLoopCut: per-entry data for more than the stated number of entries is outside the claim
		// (the allocation bound above has been discharged for all sizes first)
		if e.pos >= len(e.trace) {
			e.Cuts++
		}
		e.assume(Cmp(OpULe, n, BV(64, uint64(e.cutBound))), "size cut")
	}
	ln := int(e.concretize(n))
	c := ln
	cp = e.subst(cp)
	if cp != n {
		e.obligation(And(Cmp(OpULe, cp, BV(64, uint64(lim))), Cmp(OpULe, n, cp)), "runtime", "makeslice: cap out of range", st)
		c = int(e.concretize(cp))
	}
	if c < ln {
		c = ln
	}
	e.noteAlloc(int64(c), st)
	arr := &ArrayV{e: make([]Value, c)}
	z := zeroOf(el)
	_, composite := z.(*StructV)
	_, composite2 := z.(*ArrayV)
	for i := range arr.e {
		if composite || composite2 {
			arr.e[i] = copyVal(z)
		} else {
			arr.e[i] = z
		}
	}
	return &SliceV{obj: e.newObj(arr, st), len: ln, cap: c}
}

func (e *Exec) allocLimitElems() int64 {
	if e.allocLimit > 0 {
		return e.allocLimit
	}
	return maxAllocElems
}

func (e *Exec) noteAlloc(n int64, st string) {
	e.allocBytes += n
}

func (e *Exec) sliceOp(x *ssa.Slice, base Value, lo, hi, mx getter, fr *frame, st string) Value {
	var obj *Object
	var off, ln, cp int
	isStr := false
	switch b := base.(type) {
	case *SliceV:
		if b.symLen != nil {
			unsup("slicing of a length-only slice at %s", st)
		}
		obj, off, ln, cp = b.obj, b.off, b.len, b.cap
	case *Ptr:
		if b.symIdx != nil {
			b = e.concretizePtr(b)
		}
		arr := navigate(b.obj.val, b.path).(*ArrayV)
		if len(b.path) != 0 {
			// slice of an array nested in another object: view through a path-prefixed pseudo object is not
			// supported by the slice header; materialise an alias object sharing the ArrayV.
			obj = e.aliasObj(b.obj, arr)
		} else {
			obj = b.obj
		}
		off, ln, cp = 0, len(arr.e), len(arr.e)
	case StrV, *SStrV:
		isStr = true
		ln = strLen(b)
		cp = ln
	case NilV:
		e.obligation(tFalse, "runtime", "nil pointer dereference", st)
	default:
		panic(fmt.Sprintf("slice of %T", base))
	}
	lt, ht := BV(64, 0), BV(64, uint64(ln))
	if lo != nil {
		lt = toInt64(lo(fr).(*Term), x.Low.Type())
	}
	if hi != nil {
		ht = toInt64(hi(fr).(*Term), x.High.Type())
	}
	mt := BV(64, uint64(cp))
	if mx != nil {
		mt = toInt64(mx(fr).(*Term), x.Max.Type())
		e.obligation(And(Cmp(OpULe, mt, BV(64, uint64(cp))), Cmp(OpULe, ht, mt)), "runtime", "slice bounds out of range (max)", st)
	}
	e.obligation(And(Cmp(OpULe, ht, mt), Cmp(OpULe, lt, ht)), "runtime", "slice bounds out of range", st)
	l := int(e.concretize(lt))
	h := int(e.concretize(ht))
	m := int(e.concretize(mt))
	if isStr {
		bs := strBytes(base)
		return mkStr(bs[l:h])
	}
	if obj == nil {
		return &SliceV{}
	}
	return &SliceV{obj: obj, off: off + l, len: h - l, cap: m - l}
}

// aliasObj returns an object whose value is the given nested ArrayV (shared by reference).
func (e *Exec) aliasObj(parent *Object, arr *ArrayV) *Object {
	if e.aliases == nil {
		e.aliases = map[*ArrayV]*Object{}
	}
	if o, ok := e.aliases[arr]; ok {
		return o
	}
	o := &Object{id: parent.id, val: arr, site: parent.site + " (nested array)"}
	e.aliases[arr] = o
	return o
}

// ---------- maps ----------

func (e *Exec) valEq(a, b Value) *Term {
	switch x := a.(type) {
	case *Term:
		return Eq(x, b.(*Term))
	case *FloatV:
		return fCmp(OpEq, x, b.(*FloatV))
	case *StructV:
		r := tTrue
		y := b.(*StructV)
		for i := range x.f {
			r = And(r, e.valEq(x.f[i], y.f[i]))
		}
		return r
	case *ArrayV:
		r := tTrue
		y := b.(*ArrayV)
		for i := range x.e {
			r = And(r, e.valEq(x.e[i], y.e[i]))
		}
		return r
	case StrV, *SStrV:
		if strLen(a) != strLen(b) {
			return tFalse
		}
		r := tTrue
		for i := 0; i < strLen(a); i++ {
			r = And(r, Eq(strByte(a, i), strByte(b, i)))
		}
		return r
	case NilV:
		return Bool(isNil(b))
	case *Ptr:
		y, ok := b.(*Ptr)
		if !ok {
			return tFalse
		}
		if x.symIdx != nil || y.symIdx != nil {
			x, y = e.concretizePtr2(x), e.concretizePtr2(y)
		}
		return Bool(x.obj == y.obj && pathEq(x.path, y.path))
	case *IfaceV:
		y, ok := b.(*IfaceV)
		if !ok {
			return tFalse
		}
		if !types.Identical(x.t, y.t) {
			return tFalse
		}
		return e.valEq(x.v, y.v)
	case *MapV:
		return Bool(a == b)
	case *FuncV:
		return Bool(isNil(b) == false && a == b)
	case *SliceV:
		if y, ok := b.(*SliceV); ok {
			return Bool(x.obj == nil && y.obj == nil)
		}
		return Bool(x.obj == nil && isNil(b))
	case *NativeV:
		if y, ok := b.(*NativeV); ok {
			return Bool(x.v == y.v)
		}
		return tFalse
	}
	panic(fmt.Sprintf("valEq on %T", a))
}

func (e *Exec) concretizePtr2(p *Ptr) *Ptr {
	if p.symIdx == nil {
		return p
	}
	return e.concretizePtr(p)
}

func (e *Exec) mapGet(m *MapV, k Value) (Value, bool) {
	for _, en := range m.ent {
		if en.deleted {
			continue
		}
		if e.branch(e.valEq(k, en.key)) {
			return copyVal(en.val), true
		}
	}
	return nil, false
}

func (e *Exec) noteMapWrite(m *MapV, st string) {
	if m.id <= e.frozenMap && !e.synchronised() {
		e.obligation(tFalse, "assert", "write to shared memory", "map <- "+st)
	}
	if m.id <= e.initMap {
		if e.dirtyMaps == nil {
			e.dirtyMaps = map[*MapV]bool{}
		}
		if !e.dirtyMaps[m] {
			e.dirtyMaps[m] = true
			snap := make([]*mapEntry, len(m.ent))
			for i, en := range m.ent {
				cp := *en
				snap[i] = &cp
			}
			e.undo = append(e.undo, func() { m.ent = snap; delete(e.dirtyMaps, m) })
		}
	}
}

func (e *Exec) mapSet(m *MapV, k, v Value, st string) {
	if e.spec > 0 {
		panic(specAbort{})
	}
	e.noteMapWrite(m, st)
	for _, en := range m.ent {
		if en.deleted {
			continue
		}
		if e.branch(e.valEq(k, en.key)) {
			en.val = copyVal(v)
			return
		}
	}
	m.ent = append(m.ent, &mapEntry{key: copyVal(k), val: copyVal(v)})
}

func (e *Exec) mapDelete(m *MapV, k Value, st string) {
	e.noteMapWrite(m, st)
	for _, en := range m.ent {
		if en.deleted {
			continue
		}
		if e.branch(e.valEq(k, en.key)) {
			en.deleted = true
			return
		}
	}
}

func (m *MapV) live() int {
	n := 0
	for _, en := range m.ent {
		if !en.deleted {
			n++
		}
	}
	return n
}

func (e *Exec) rangeStart(v Value) Value {
	switch x := v.(type) {
	case *MapV:
		var order []int
		for i, en := range x.ent {
			if !en.deleted {
				order = append(order, i)
			}
		}
		if e.mapOrder && len(order) > 4 {
			// too many permutations: three representative orders (insertion, reversed, rotated)
			e.Stubs["map iteration order of maps with more than 4 entries: 3 representative orders only"] = true
			if e.bigMapOrder < 0 {
				e.bigMapOrder = e.choose(3) // one choice per path, applied to every large map
			}
			switch e.bigMapOrder {
			case 1:
				for i, j := 0, len(order)-1; i < j; i, j = i+1, j-1 {
					order[i], order[j] = order[j], order[i]
				}
			case 2:
				h := len(order) / 2
				order = append(append([]int{}, order[h:]...), order[:h]...)
			}
		} else if e.mapOrder && len(order) > 1 {
			// nondeterministic iteration order: choose a permutation
			rest := append([]int{}, order...)
			order = order[:0]
			for len(rest) > 1 {
				k := e.choose(len(rest))
				order = append(order, rest[k])
				rest = append(rest[:k], rest[k+1:]...)
			}
			order = append(order, rest[0])
		}
		return &IterV{m: x, order: order}
	case NilV:
		return &IterV{}
	case StrV, *SStrV:
		return &IterV{str: x}
	}
	panic(fmt.Sprintf("range over %T", v))
}

func (e *Exec) rangeNext(it *IterV) Value {
	if it.str != nil {
		n := strLen(it.str)
		if it.pos >= n {
			return TupleV{tFalse, BV(64, 0), BV(32, 0)}
		}
		r, size := e.decodeRune(it.str, it.pos)
		p := it.pos
		it.pos += size
		return TupleV{tTrue, BV(64, uint64(p)), r}
	}
	for it.m != nil && it.idx < len(it.order) {
		en := it.m.ent[it.order[it.idx]]
		it.idx++
		if en.deleted {
			continue
		}
		return TupleV{tTrue, en.key, copyVal(en.val)}
	}
	return TupleV{tFalse, nil, nil}
}

// decodeRune decodes one UTF-8 sequence at position i of string s (forking on symbolic bytes).
func (e *Exec) decodeRune(s Value, i int) (*Term, int) {
	n := strLen(s)
	b0 := strByte(s, i)
	in := func(b *Term, lo, hi uint64) bool {
		return e.branch(And(Cmp(OpULe, BV(8, lo), b), Cmp(OpULe, b, BV(8, hi))))
	}
	bad := BV(32, 0xFFFD)
	if e.branch(Cmp(OpULt, b0, BV(8, 0x80))) {
		return ZExt(b0, 32), 1
	}
	cont := func(k int) *Term { return ZExt(Extract(strByte(s, i+k), 0, 6), 32) }
	if in(b0, 0xC2, 0xDF) {
		if i+1 >= n || !in(strByte(s, i+1), 0x80, 0xBF) {
			return bad, 1
		}
		r := BinBV(OpBOr, BinBV(OpShl, ZExt(Extract(b0, 0, 5), 32), BV(32, 6)), cont(1))
		return r, 2
	}
	if in(b0, 0xE0, 0xEF) {
		if i+2 >= n {
			return bad, 1
		}
		b1 := strByte(s, i+1)
		lo, hi := uint64(0x80), uint64(0xBF)
		if e.branch(Eq(b0, BV(8, 0xE0))) {
			lo = 0xA0
		} else if e.branch(Eq(b0, BV(8, 0xED))) {
			hi = 0x9F
		}
		if !in(b1, lo, hi) || !in(strByte(s, i+2), 0x80, 0xBF) {
			return bad, 1
		}
		r := BinBV(OpBOr, BinBV(OpBOr, BinBV(OpShl, ZExt(Extract(b0, 0, 4), 32), BV(32, 12)), BinBV(OpShl, cont(1), BV(32, 6))), cont(2))
		return r, 3
	}
	if in(b0, 0xF0, 0xF4) {
		if i+3 >= n {
			return bad, 1
		}
		b1 := strByte(s, i+1)
		lo, hi := uint64(0x80), uint64(0xBF)
		if e.branch(Eq(b0, BV(8, 0xF0))) {
			lo = 0x90
		} else if e.branch(Eq(b0, BV(8, 0xF4))) {
			hi = 0x8F
		}
		if !in(b1, lo, hi) || !in(strByte(s, i+2), 0x80, 0xBF) || !in(strByte(s, i+3), 0x80, 0xBF) {
			return bad, 1
		}
		r := BinBV(OpBOr, BinBV(OpBOr, BinBV(OpBOr, BinBV(OpShl, ZExt(Extract(b0, 0, 3), 32), BV(32, 18)), BinBV(OpShl, cont(1), BV(32, 12))), BinBV(OpShl, cont(2), BV(32, 6))), cont(3))
		return r, 4
	}
	return bad, 1
}

// encodeRune produces the UTF-8 bytes of rune r (forking on symbolic ranges).
func (e *Exec) encodeRune(r *Term) []*Term {
	r = SExt(r, 32)
	if r.W > 32 {
		r = Trunc(r, 32)
	}
	ex := func(lo, w int, or uint64) *Term {
		return BinBV(OpBOr, ZExt(Extract(r, lo, w), 8), BV(8, or))
	}
	bad := []*Term{BV(8, 0xEF), BV(8, 0xBF), BV(8, 0xBD)}
	if e.branch(Cmp(OpULt, r, BV(32, 0x80))) {
		return []*Term{Extract(r, 0, 8)}
	}
	if e.branch(Cmp(OpULt, r, BV(32, 0x800))) {
		return []*Term{ex(6, 5, 0xC0), ex(0, 6, 0x80)}
	}
	if e.branch(Cmp(OpULt, r, BV(32, 0x10000))) {
		if e.branch(And(Cmp(OpULe, BV(32, 0xD800), r), Cmp(OpULe, r, BV(32, 0xDFFF)))) {
			return bad
		}
		return []*Term{ex(12, 4, 0xE0), ex(6, 6, 0x80), ex(0, 6, 0x80)}
	}
	if e.branch(Cmp(OpULe, r, BV(32, 0x10FFFF))) {
		return []*Term{ex(18, 3, 0xF0), ex(12, 6, 0x80), ex(6, 6, 0x80), ex(0, 6, 0x80)}
	}
	return bad
}

// ---------- type assertions ----------

func (e *Exec) implements(t types.Type, iface *types.Interface) bool {
	return types.Implements(t, iface)
}

func (e *Exec) typeAssert(x *ssa.TypeAssert, v Value, st string) Value {
	iv, isI := v.(*IfaceV)
	var ok bool
	var res Value
	if it, isIface := x.AssertedType.Underlying().(*types.Interface); isIface {
		ok = isI && e.implements(iv.t, it)
		res = v
		if !ok {
			res = NilV{}
		}
	} else {
		ok = isI && types.Identical(iv.t, x.AssertedType)
		if ok {
			res = iv.v
		} else {
			res = zeroOf(x.AssertedType)
		}
	}
	if x.CommaOk {
		return TupleV{res, Bool(ok)}
	}
	if !ok {
		e.obligation(tFalse, "runtime", "type assertion failed", st)
	}
	return res
}

// ---------- conversions ----------

func (e *Exec) convertFn(from, to types.Type, st string) func(Value) Value {
	fw, tw := widthOf(from), widthOf(to)
	switch {
	case fw > 0 && tw > 0 && isInteger(from) && isInteger(to):
		signed := isSigned(from)
		return func(a Value) Value {
			t := a.(*Term)
			if tw < fw {
				return Trunc(t, tw)
			} else if tw > fw {
				if signed {
					return SExt(t, tw)
				}
				return ZExt(t, tw)
			}
			return t
		}
	case isInteger(from) && isFloat(to):
		signed := isSigned(from)
		f32 := to.Underlying().(*types.Basic).Kind() == types.Float32
		return func(a Value) Value {
			r := fFromInt(e.subst(a.(*Term)), signed)
			if f32 {
				r = fToFloat32(r)
			}
			return r
		}
	case isFloat(from) && isInteger(to):
		signed := isSigned(to)
		return func(a Value) Value {
			f := a.(*FloatV)
			if !f.sym {
				// Go semantics for out-of-range conversions are implementation-defined; use the native result.
				if math.IsNaN(f.c) || math.IsInf(f.c, 0) {
					return BV(tw, 0x8000000000000000)
				}
				if signed {
					return BV(tw, uint64(int64(f.c)))
				}
				if f.c < 0 {
					return BV(tw, uint64(int64(f.c)))
				}
				return BV(tw, uint64(f.c))
			}
			t, nb := fToInt(f)
			// Out-of-range conversions are implementation-defined in Go; the amd64 behaviour is modelled
			// (CVTTSD2SL/CVTTSD2SQ return the "integer indefinite" value 0x80..0), narrower targets
			// are converted through int32 (int8/16/32, uint8/16) or int64 (uint32, int64) and truncated.
			via := 32
			if tw == 64 || (tw == 32 && !signed) {
				via = 64
			}
			if via == 32 && nb > 31 {
				lo := BV(64, uint64(0xFFFFFFFF80000000))
				hi := BV(64, 0x7FFFFFFF)
				in := And(Cmp(OpSLe, lo, t), Cmp(OpSLe, t, hi))
				t = Ite(in, t, BV(64, uint64(0xFFFFFFFF80000000)))
				e.Stubs["float-to-integer conversion out of range modelled as on amd64 (integer indefinite value)"] = true
			}
			if tw == 64 && !signed && nb > 62 {
				unsup("float to uint64 conversion of unbounded value at %s", st)
			}
			return Trunc(t, tw)
		}
	case isFloat(from) && isFloat(to):
		f32 := to.Underlying().(*types.Basic).Kind() == types.Float32
		return func(a Value) Value {
			if f32 {
				return fToFloat32(a.(*FloatV))
			}
			return a
		}
	case isString(to):
		switch u := from.Underlying().(type) {
		case *types.Basic:
			if u.Info()&types.IsInteger != 0 {
				signed := isSigned(from)
				return func(a Value) Value {
					t := a.(*Term)
					if t.W > 32 {
						// values outside int32 are invalid runes
						if signed {
							if !e.branch(And(Cmp(OpSLe, BV(t.W, 0), t), Cmp(OpSLe, t, BV(t.W, 0x10FFFF)))) {
								return StrV("�")
							}
						} else if !e.branch(Cmp(OpULe, t, BV(t.W, 0x10FFFF))) {
							return StrV("�")
						}
						t = Trunc(t, 32)
					} else if t.W < 32 {
						if signed {
							t = SExt(t, 32)
						} else {
							t = ZExt(t, 32)
						}
					}
					return mkStr(e.encodeRune(t))
				}
			}
			if u.Info()&types.IsString != 0 {
				return func(a Value) Value { return a }
			}
		case *types.Slice:
			ew := widthOf(u.Elem())
			if ew == 8 {
				return func(a Value) Value {
					s := a.(*SliceV)
					bs := make([]*Term, s.len)
					for i := range bs {
						bs[i] = s.at(i).(*Term)
					}
					return mkStr(bs)
				}
			}
			if ew == 32 {
				return func(a Value) Value {
					s := a.(*SliceV)
					var bs []*Term
					for i := 0; i < s.len; i++ {
						bs = append(bs, e.encodeRune(s.at(i).(*Term))...)
					}
					return mkStr(bs)
				}
			}
		}
	case isString(from):
		if u, ok := to.Underlying().(*types.Slice); ok {
			ew := widthOf(u.Elem())
			if ew == 8 {
				return func(a Value) Value {
					bs := strBytes(a)
					arr := &ArrayV{e: make([]Value, len(bs))}
					for i, b := range bs {
						arr.e[i] = b
					}
					return &SliceV{obj: e.newObj(arr, st), len: len(bs), cap: len(bs)}
				}
			}
			if ew == 32 {
				return func(a Value) Value {
					arr := &ArrayV{}
					n := strLen(a)
					for i := 0; i < n; {
						r, sz := e.decodeRune(a, i)
						arr.e = append(arr.e, r)
						i += sz
					}
					return &SliceV{obj: e.newObj(arr, st), len: len(arr.e), cap: len(arr.e)}
				}
			}
		}
	}
	if _, ok := to.Underlying().(*types.Pointer); ok {
		return func(a Value) Value { return a }
	}
	if b, ok := to.Underlying().(*types.Basic); ok && b.Kind() == types.UnsafePointer {
		return func(a Value) Value { return a }
	}
	return func(a Value) Value {
		unsup("convert %s -> %s at %s", from, to, st)
		return nil
	}
}

// ---------- binary operators ----------

func strLess(a, b Value, orEq bool) *Term {
	na, nb := strLen(a), strLen(b)
	n := na
	if nb < n {
		n = nb
	}
	// result when all common bytes equal
	var res *Term
	if orEq {
		res = Bool(na <= nb)
	} else {
		res = Bool(na < nb)
	}
	for i := n - 1; i >= 0; i-- {
		x, y := strByte(a, i), strByte(b, i)
		res = Ite(Eq(x, y), res, Cmp(OpULt, x, y))
	}
	return res
}

func (e *Exec) binopFn(x *ssa.BinOp, st string) func(a, b Value) Value {
	signed := isSigned(x.X.Type())
	ysigned := isSigned(x.Y.Type())
	op := x.Op
	return func(a, b Value) Value {
		at, aok := a.(*Term)
		bt, bok := b.(*Term)
		if aok && bok {
			return e.intBinop(op, at, bt, signed, ysigned, st)
		}
		if af, ok := a.(*FloatV); ok {
			bf := b.(*FloatV)
			switch op {
			case token.ADD:
				return fAdd(af, bf)
			case token.SUB:
				return fSub(af, bf)
			case token.MUL:
				return fMul(af, bf)
			case token.QUO:
				return fDiv(af, bf)
			case token.EQL:
				return fCmp(OpEq, af, bf)
			case token.NEQ:
				return Not(fCmp(OpEq, af, bf))
			case token.LSS:
				return fCmp(OpSLt, af, bf)
			case token.LEQ:
				return fCmp(OpSLe, af, bf)
			case token.GTR:
				return fCmp(OpSLt, bf, af)
			case token.GEQ:
				return fCmp(OpSLe, bf, af)
			}
			panic("float binop " + op.String())
		}
		switch a.(type) {
		case StrV, *SStrV:
			switch op {
			case token.ADD:
				if sa, ok := a.(StrV); ok {
					if sb, ok := b.(StrV); ok {
						return sa + sb
					}
				}
				return mkStr(append(strBytes(a), strBytes(b)...))
			case token.EQL:
				return e.valEq(a, b)
			case token.NEQ:
				return Not(e.valEq(a, b))
			case token.LSS:
				return strLess(a, b, false)
			case token.LEQ:
				return strLess(a, b, true)
			case token.GTR:
				return strLess(b, a, false)
			case token.GEQ:
				return strLess(b, a, true)
			}
		}
		if op == token.EQL || op == token.NEQ {
			var eq *Term
			switch {
			case isNil(a) || isNil(b):
				eq = Bool(isNil(a) && isNil(b))
			default:
				eq = e.valEq(a, b)
			}
			if op == token.NEQ {
				return Not(eq)
			}
			return eq
		}
		panic(fmt.Sprintf("binop %s on %T,%T at %s", op, a, b, st))
	}
}

func (e *Exec) intBinop(op token.Token, at, bt *Term, signed, ysigned bool, st string) Value {
	if at.W == 0 { // bool
		switch op {
		case token.EQL:
			return Eq(at, bt)
		case token.NEQ:
			return Not(Eq(at, bt))
		case token.AND, token.LAND:
			return And(at, bt)
		case token.OR, token.LOR:
			return Or(at, bt)
		}
	}
	switch op {
	case token.ADD:
		return BinBV(OpAdd, at, bt)
	case token.SUB:
		return BinBV(OpSub, at, bt)
	case token.MUL:
		return BinBV(OpMul, at, bt)
	case token.QUO, token.REM:
		e.obligation(Not(Eq(bt, BV(bt.W, 0))), "runtime", "integer divide by zero", st)
		if !bt.IsConst() {
			// small divisor ranges are case-split: division by a symbolic divisor is hard for bit-blasting
			bt2 := e.subst(bt)
			lo, hi := e.bnd(bt2)
			if !bt2.IsConst() && hi-lo <= 8 {
				bt = BV(bt.W, e.concretize(bt2))
			}
		}
		var o Op
		switch {
		case signed && op == token.QUO:
			o = OpSDiv
		case signed:
			o = OpSRem
		case op == token.QUO:
			o = OpUDiv
		default:
			o = OpURem
		}
		return BinBV(o, at, bt)
	case token.AND:
		return BinBV(OpBAnd, at, bt)
	case token.OR:
		return BinBV(OpBOr, at, bt)
	case token.XOR:
		return BinBV(OpBXor, at, bt)
	case token.AND_NOT:
		return BinBV(OpBAnd, at, BinBV(OpBXor, bt, BV(bt.W, ^uint64(0))))
	case token.SHL, token.SHR:
		cnt := bt
		if ysigned {
			e.obligation(Not(Cmp(OpSLt, cnt, BV(cnt.W, 0))), "runtime", "negative shift amount", st)
		}
		var c2 *Term
		if cnt.W > at.W {
			big := Cmp(OpULt, BV(cnt.W, uint64(at.W)-1), cnt)
			c2 = Ite(big, BV(at.W, uint64(at.W)), Trunc(cnt, at.W))
		} else {
			c2 = ZExt(cnt, at.W)
		}
		if op == token.SHL {
			return BinBV(OpShl, at, c2)
		}
		if signed {
			return BinBV(OpAShr, at, c2)
		}
		return BinBV(OpLShr, at, c2)
	case token.EQL:
		return Eq(at, bt)
	case token.NEQ:
		return Not(Eq(at, bt))
	case token.LSS:
		if signed {
			return Cmp(OpSLt, at, bt)
		}
		return Cmp(OpULt, at, bt)
	case token.LEQ:
		if signed {
			return Cmp(OpSLe, at, bt)
		}
		return Cmp(OpULe, at, bt)
	case token.GTR:
		if signed {
			return Cmp(OpSLt, bt, at)
		}
		return Cmp(OpULt, bt, at)
	case token.GEQ:
		if signed {
			return Cmp(OpSLe, bt, at)
		}
		return Cmp(OpULe, bt, at)
	}
	panic("binop unsupported " + op.String())
}
