package main

import (
	"fmt"
	"math/bits"
)

// Term is a hash-consed SMT term over Bool (W==0) and fixed-width bit-vectors.
type Op uint8

const (
	OpConst Op = iota
	OpVar
	OpNot
	OpAnd
	OpOr
	OpEq
	OpIte
	OpAdd
	OpSub
	OpMul
	OpUDiv
	OpURem
	OpSDiv
	OpSRem
	OpBAnd
	OpBOr
	OpBXor
	OpShl
	OpLShr
	OpAShr
	OpZExt
	OpSExt
	OpExtract // V = lo, W = width
	OpConcat
	OpULt
	OpULe
	OpSLt
	OpSLe
)

var opName = [...]string{"const", "var", "not", "and", "or", "=", "ite", "bvadd", "bvsub", "bvmul", "bvudiv", "bvurem", "bvsdiv", "bvsrem",
	"bvand", "bvor", "bvxor", "bvshl", "bvlshr", "bvashr", "zext", "sext", "extract", "concat", "bvult", "bvule", "bvslt", "bvsle"}

type Term struct {
	Op      Op
	W       int
	A, B, C *Term
	V       uint64
	Name    string
	id      int
	lo, hi  uint64 // unsigned interval (for W>0)
	defined bool   // emitted to the solver as define-fun
}

type tkey struct {
	op      Op
	w       int
	a, b, c int
	v       uint64
	name    string
}

var termTab = map[tkey]*Term{}
var termCount int

func mask(w int) uint64 {
	if w >= 64 {
		return ^uint64(0)
	}
	return (uint64(1) << uint(w)) - 1
}

func tid(t *Term) int {
	if t == nil {
		return -1
	}
	return t.id
}

func mk(op Op, w int, a, b, c *Term, v uint64, name string) *Term {
	k := tkey{op, w, tid(a), tid(b), tid(c), v, name}
	if t, ok := termTab[k]; ok {
		return t
	}
	termCount++
	t := &Term{Op: op, W: w, A: a, B: b, C: c, V: v, Name: name, id: termCount}
	if w > 0 {
		t.lo, t.hi = interval(t)
	}
	termTab[k] = t
	return t
}

func (t *Term) IsConst() bool { return t.Op == OpConst }

func BV(w int, v uint64) *Term {
	if w <= 0 {
		panic("BV width")
	}
	return mk(OpConst, w, nil, nil, nil, v&mask(w), "")
}

var tTrue = mk(OpConst, 0, nil, nil, nil, 1, "")
var tFalse = mk(OpConst, 0, nil, nil, nil, 0, "")

func Bool(b bool) *Term {
	if b {
		return tTrue
	}
	return tFalse
}

func Var(name string, w int) *Term { return mk(OpVar, w, nil, nil, nil, 0, name) }

func sext(v uint64, w int) int64 {
	if w >= 64 {
		return int64(v)
	}
	sh := uint(64 - w)
	return int64(v<<sh) >> sh
}

func interval(t *Term) (uint64, uint64) {
	m := mask(t.W)
	switch t.Op {
	case OpConst:
		return t.V, t.V
	case OpZExt:
		return t.A.lo, t.A.hi
	case OpSExt:
		if t.A.hi <= mask(t.A.W-1) {
			return t.A.lo, t.A.hi
		}
	case OpAdd:
		hi, c := bits.Add64(t.A.hi, t.B.hi, 0)
		if c == 0 && hi <= m {
			return t.A.lo + t.B.lo, hi
		}
	case OpSub:
		if t.A.lo >= t.B.hi {
			return t.A.lo - t.B.hi, t.A.hi - t.B.lo
		}
	case OpMul:
		h, l := bits.Mul64(t.A.hi, t.B.hi)
		if h == 0 && l <= m {
			return t.A.lo * t.B.lo, l
		}
	case OpUDiv:
		if t.B.lo > 0 {
			return t.A.lo / t.B.hi, t.A.hi / t.B.lo
		}
		return 0, m // x/0 = all ones in SMT; Go never evaluates it
	case OpURem:
		if t.B.lo > 0 {
			h := t.B.hi - 1
			if t.A.hi < h {
				h = t.A.hi
			}
			return 0, h
		}
	case OpBAnd:
		h := t.A.hi
		if t.B.hi < h {
			h = t.B.hi
		}
		return 0, h
	case OpBOr, OpBXor:
		h := t.A.hi
		if t.B.hi > h {
			h = t.B.hi
		}
		n := bits.Len64(h)
		lo := uint64(0)
		if t.Op == OpBOr {
			lo = t.A.lo
			if t.B.lo > lo {
				lo = t.B.lo
			}
		}
		return lo, mask(n) & m
	case OpShl:
		if t.B.IsConst() && t.B.V < 64 {
			if t.A.hi <= m>>t.B.V {
				return t.A.lo << t.B.V, t.A.hi << t.B.V
			}
		}
	case OpLShr:
		if t.B.IsConst() {
			if t.B.V >= 64 {
				return 0, 0
			}
			return t.A.lo >> t.B.V, t.A.hi >> t.B.V
		}
		return 0, t.A.hi
	case OpIte:
		lo, hi := t.B.lo, t.B.hi
		if t.C.lo < lo {
			lo = t.C.lo
		}
		if t.C.hi > hi {
			hi = t.C.hi
		}
		return lo, hi
	case OpExtract:
		if t.V == 0 {
			if t.A.hi <= m {
				return t.A.lo, t.A.hi
			}
		} else if t.V < 64 {
			if (t.A.hi >> t.V) <= m {
				return t.A.lo >> t.V, t.A.hi >> t.V
			}
		}
	case OpConcat:
		k := uint(t.B.W)
		return t.A.lo<<k | t.B.lo, t.A.hi<<k | t.B.hi
	}
	return 0, m
}

func Not(a *Term) *Term {
	switch a.Op {
	case OpConst:
		return Bool(a.V == 0)
	case OpNot:
		return a.A
	case OpULt:
		return Cmp(OpULe, a.B, a.A)
	case OpULe:
		return Cmp(OpULt, a.B, a.A)
	case OpSLt:
		return Cmp(OpSLe, a.B, a.A)
	case OpSLe:
		return Cmp(OpSLt, a.B, a.A)
	}
	return mk(OpNot, 0, a, nil, nil, 0, "")
}

func And(a, b *Term) *Term {
	if a.IsConst() {
		if a.V == 0 {
			return a
		}
		return b
	}
	if b.IsConst() {
		if b.V == 0 {
			return b
		}
		return a
	}
	if a == b {
		return a
	}
	if a == Not(b) {
		return tFalse
	}
	if a.id > b.id {
		a, b = b, a
	}
	return mk(OpAnd, 0, a, b, nil, 0, "")
}

func Or(a, b *Term) *Term {
	if a.IsConst() {
		if a.V != 0 {
			return a
		}
		return b
	}
	if b.IsConst() {
		if b.V != 0 {
			return b
		}
		return a
	}
	if a == b {
		return a
	}
	if a == Not(b) {
		return tTrue
	}
	if a.id > b.id {
		a, b = b, a
	}
	return mk(OpOr, 0, a, b, nil, 0, "")
}

func Implies(a, b *Term) *Term { return Or(Not(a), b) }

func Ite(c, a, b *Term) *Term {
	if c.IsConst() {
		if c.V != 0 {
			return a
		}
		return b
	}
	if a == b {
		return a
	}
	if a.W != b.W {
		panic(fmt.Sprintf("ite width mismatch %d %d", a.W, b.W))
	}
	if c.Op == OpNot {
		return Ite(c.A, b, a)
	}
	if a.W == 0 {
		if a.IsConst() && b.IsConst() {
			if a.V != 0 {
				return c
			}
			return Not(c)
		}
		return Or(And(c, a), And(Not(c), b))
	}
	// ite(c, x, ite(c, y, z)) = ite(c, x, z)
	if b.Op == OpIte && b.A == c {
		return Ite(c, a, b.C)
	}
	if a.Op == OpIte && a.A == c {
		return Ite(c, a.B, b)
	}
	return mk(OpIte, a.W, c, a, b, 0, "")
}

func Eq(a, b *Term) *Term {
	if a == b {
		return tTrue
	}
	if a.W != b.W {
		panic(fmt.Sprintf("eq width mismatch %d %d (%s, %s)", a.W, b.W, a, b))
	}
	if a.IsConst() && b.IsConst() {
		return Bool(a.V == b.V)
	}
	if a.IsConst() {
		a, b = b, a
	}
	if a.W == 0 {
		if b.IsConst() {
			if b.V != 0 {
				return a
			}
			return Not(a)
		}
		if a == Not(b) {
			return tFalse
		}
	} else {
		if a.hi < b.lo || b.hi < a.lo {
			return tFalse
		}
		if b.IsConst() {
			switch a.Op {
			case OpIte:
				// eq(ite(c,x,y),k)
				if a.B.IsConst() && a.C.IsConst() {
					x, y := a.B.V == b.V, a.C.V == b.V
					switch {
					case x && y:
						return tTrue
					case x:
						return a.A
					case y:
						return Not(a.A)
					default:
						return tFalse
					}
				}
			case OpAdd:
				if a.B.IsConst() {
					return Eq(a.A, BV(a.W, b.V-a.B.V))
				}
			case OpSub:
				if a.B.IsConst() {
					return Eq(a.A, BV(a.W, b.V+a.B.V))
				}
			case OpZExt:
				if b.V > mask(a.A.W) {
					return tFalse
				}
				return Eq(a.A, BV(a.A.W, b.V))
			case OpConcat:
				k := a.B.W
				return And(Eq(a.A, BV(a.A.W, b.V>>uint(k))), Eq(a.B, BV(k, b.V)))
			}
		}
		if a.Op == OpZExt && b.Op == OpZExt && a.A.W == b.A.W {
			return Eq(a.A, b.A)
		}
	}
	if !b.IsConst() && a.id > b.id {
		a, b = b, a
	}
	return mk(OpEq, 0, a, b, nil, 0, "")
}

func ZExt(a *Term, w int) *Term {
	if a.W == w {
		return a
	}
	if a.W > w {
		panic("zext narrowing")
	}
	if a.IsConst() {
		return BV(w, a.V)
	}
	if a.Op == OpZExt {
		return ZExt(a.A, w)
	}
	return mk(OpZExt, w, a, nil, nil, 0, "")
}

func SExt(a *Term, w int) *Term {
	if a.W == w {
		return a
	}
	if a.IsConst() {
		return BV(w, uint64(sext(a.V, a.W)))
	}
	if a.hi <= mask(a.W-1) {
		return ZExt(a, w)
	}
	if a.Op == OpSExt {
		return SExt(a.A, w)
	}
	return mk(OpSExt, w, a, nil, nil, 0, "")
}

// Extract returns bits [lo+w-1 : lo] of a.
func Extract(a *Term, lo, w int) *Term {
	if lo == 0 && w == a.W {
		return a
	}
	if lo+w > a.W || w <= 0 {
		panic(fmt.Sprintf("extract out of range lo=%d w=%d from %d", lo, w, a.W))
	}
	switch a.Op {
	case OpConst:
		return BV(w, a.V>>uint(lo))
	case OpZExt:
		n := a.A.W
		if lo >= n {
			return BV(w, 0)
		}
		if lo+w <= n {
			return Extract(a.A, lo, w)
		}
		return ZExt(Extract(a.A, lo, n-lo), w)
	case OpSExt:
		n := a.A.W
		if lo+w <= n {
			return Extract(a.A, lo, w)
		}
		if lo == 0 {
			return SExt(a.A, w)
		}
	case OpExtract:
		return Extract(a.A, lo+int(a.V), w)
	case OpConcat:
		k := a.B.W
		if lo >= k {
			return Extract(a.A, lo-k, w)
		}
		if lo+w <= k {
			return Extract(a.B, lo, w)
		}
		return Concat(Extract(a.A, 0, lo+w-k), Extract(a.B, lo, k-lo))
	case OpBAnd, OpBOr, OpBXor:
		// distribute only over a constant operand: distributing in general prevents the re-assembly
		// concat(x[31:8], x[7:0]) = x of values that were written out as bytes and read back
		if a.B.IsConst() || a.A.IsConst() {
			return BinBV(a.Op, Extract(a.A, lo, w), Extract(a.B, lo, w))
		}
	case OpIte:
		if a.B.IsConst() || a.C.IsConst() {
			return Ite(a.A, Extract(a.B, lo, w), Extract(a.C, lo, w))
		}
	case OpShl:
		if a.B.IsConst() && lo == 0 && a.B.V < uint64(w) {
			return BinBV(OpShl, Extract(a.A, 0, w), BV(w, a.B.V))
		}
	}
	if a.hi>>uint(lo) == 0 && lo < 64 {
		return BV(w, 0)
	}
	return mk(OpExtract, w, a, nil, nil, uint64(lo), "")
}

func Trunc(a *Term, w int) *Term { return Extract(a, 0, w) }

func Concat(a, b *Term) *Term {
	w := a.W + b.W
	if w > 64 {
		panic("concat too wide")
	}
	if a.IsConst() && b.IsConst() {
		return BV(w, a.V<<uint(b.W)|b.V)
	}
	if a.IsConst() && a.V == 0 {
		return ZExt(b, w)
	}
	// concat(extract[h:m+1] x, extract[m:l] x) = extract[h:l] x
	if a.Op == OpExtract && b.Op == OpExtract && a.A == b.A && int(a.V) == int(b.V)+b.W {
		return Extract(a.A, int(b.V), w)
	}
	// concat(a, concat(b1,b2)) keep right-nested; concat(concat(a1,a2), b) -> concat(a1, concat(a2,b))
	if a.Op == OpConcat {
		return Concat(a.A, Concat(a.B, b))
	}
	if b.Op == OpConcat && a.Op == OpExtract && b.A.Op == OpExtract && a.A == b.A.A && int(a.V) == int(b.A.V)+b.A.W {
		return Concat(Extract(a.A, int(b.A.V), a.W+b.A.W), b.B)
	}
	return mk(OpConcat, w, a, b, nil, 0, "")
}

// lowZeros returns the number of low bits of t known to be zero.
func lowZeros(t *Term) int {
	switch t.Op {
	case OpConst:
		if t.V == 0 {
			return t.W
		}
		return bits.TrailingZeros64(t.V)
	case OpConcat:
		z := lowZeros(t.B)
		if z == t.B.W {
			return z + lowZeros(t.A)
		}
		return z
	case OpZExt:
		z := lowZeros(t.A)
		if z == t.A.W {
			return t.W
		}
		return z
	case OpShl:
		if t.B.IsConst() && t.B.V < uint64(t.W) {
			return int(t.B.V)
		}
	}
	return 0
}

func BinBV(op Op, a, b *Term) *Term {
	w := a.W
	if a.W != b.W {
		panic(fmt.Sprintf("binop %s width mismatch %d %d", opName[op], a.W, b.W))
	}
	if a.IsConst() && b.IsConst() {
		x, y := a.V, b.V
		switch op {
		case OpAdd:
			return BV(w, x+y)
		case OpSub:
			return BV(w, x-y)
		case OpMul:
			return BV(w, x*y)
		case OpBAnd:
			return BV(w, x&y)
		case OpBOr:
			return BV(w, x|y)
		case OpBXor:
			return BV(w, x^y)
		case OpShl:
			if y >= uint64(w) {
				return BV(w, 0)
			}
			return BV(w, x<<y)
		case OpLShr:
			if y >= uint64(w) {
				return BV(w, 0)
			}
			return BV(w, x>>y)
		case OpAShr:
			if y >= uint64(w) {
				y = uint64(w) - 1
			}
			return BV(w, uint64(sext(x, w)>>y))
		case OpUDiv:
			if y != 0 {
				return BV(w, x/y)
			}
			return BV(w, mask(w))
		case OpURem:
			if y != 0 {
				return BV(w, x%y)
			}
			return a
		case OpSDiv:
			if y != 0 {
				sx, sy := sext(x, w), sext(y, w)
				if sy == -1 {
					return BV(w, uint64(-sx))
				}
				return BV(w, uint64(sx/sy))
			}
		case OpSRem:
			if y != 0 {
				sx, sy := sext(x, w), sext(y, w)
				if sy == -1 {
					return BV(w, 0)
				}
				return BV(w, uint64(sx%sy))
			}
		}
	}
	if (op == OpAdd || op == OpSub) && (a.Op == OpAdd || a.Op == OpSub || b.Op == OpAdd || b.Op == OpSub) {
		if r := addNorm(op, a, b); r != nil {
			return r
		}
	}
	switch op {
	case OpAdd:
		if a.IsConst() {
			a, b = b, a
		}
		if b.IsConst() {
			if b.V == 0 {
				return a
			}
			if a.Op == OpAdd && a.B.IsConst() {
				return BinBV(OpAdd, a.A, BV(w, a.B.V+b.V))
			}
			if a.Op == OpSub && a.B.IsConst() {
				return BinBV(OpAdd, a.A, BV(w, b.V-a.B.V))
			}
		}
		// piece assembly via add: disjoint bits
		if z := lowZeros(a); z > 0 && z < 64 && b.hi < uint64(1)<<uint(z) {
			return BinBV(OpBOr, a, b)
		}
		if z := lowZeros(b); z > 0 && z < 64 && a.hi < uint64(1)<<uint(z) {
			return BinBV(OpBOr, a, b)
		}
		if !b.IsConst() && a.id > b.id {
			a, b = b, a
		}
	case OpSub:
		if b.IsConst() {
			if b.V == 0 {
				return a
			}
			return BinBV(OpAdd, a, BV(w, -b.V))
		}
		if a == b {
			return BV(w, 0)
		}
		// (x + y) - x = y
		if a.Op == OpAdd {
			if a.A == b {
				return a.B
			}
			if a.B == b {
				return a.A
			}
		}
	case OpMul:
		if a.IsConst() {
			a, b = b, a
		}
		if b.IsConst() {
			if b.V == 0 {
				return b
			}
			if b.V == 1 {
				return a
			}
			if b.V&(b.V-1) == 0 {
				return BinBV(OpShl, a, BV(w, uint64(bits.TrailingZeros64(b.V))))
			}
		}
		if !b.IsConst() {
			// case split over a small-range factor: const * y is cheap, sym * sym is not
			if a.hi-a.lo <= 8 && a.hi-a.lo < b.hi-b.lo {
				a, b = b, a
			}
			if b.hi-b.lo <= 8 {
				var r *Term
				for v := b.hi; ; v-- {
					p := BinBV(OpMul, a, BV(w, v))
					if r == nil {
						r = p
					} else {
						r = Ite(Eq(b, BV(w, v)), p, r)
					}
					if v == b.lo {
						break
					}
				}
				return r
			}
			// narrow multiplication when the product provably fits
			n := bits.Len64(a.hi) + bits.Len64(b.hi)
			if n < w && n > 0 {
				return ZExt(BinBV(OpMul, Extract(a, 0, n), Extract(b, 0, n)), w)
			}
		}
		if !b.IsConst() && a.id > b.id {
			a, b = b, a
		}
	case OpBAnd:
		if a.IsConst() {
			a, b = b, a
		}
		if b.IsConst() {
			if b.V == 0 {
				return b
			}
			if b.V == mask(w) {
				return a
			}
			// low mask
			if (b.V&(b.V+1)) == 0 && a.hi <= b.V {
				return a
			}
			if (b.V & (b.V + 1)) == 0 {
				n := bits.Len64(b.V)
				return ZExt(Extract(a, 0, n), w)
			}
			if a.Op == OpBAnd && a.B.IsConst() {
				return BinBV(OpBAnd, a.A, BV(w, a.B.V&b.V))
			}
			// single contiguous field mask: (x & 0xFF00) = zext(x[15:8]) << 8
			tz := bits.TrailingZeros64(b.V)
			sh := b.V >> uint(tz)
			if sh&(sh+1) == 0 {
				n := bits.Len64(sh)
				return BinBV(OpShl, ZExt(Extract(a, tz, n), w), BV(w, uint64(tz)))
			}
		}
		if a == b {
			return a
		}
		if !b.IsConst() && a.id > b.id {
			a, b = b, a
		}
	case OpBOr:
		if a.IsConst() {
			a, b = b, a
		}
		if b.IsConst() {
			if b.V == 0 {
				return a
			}
			if b.V == mask(w) {
				return b
			}
		}
		if a == b {
			return a
		}
		// piece assembly: low bits of one side zero, other side fits
		if r := orPieces(a, b); r != nil {
			return r
		}
		if r := orPieces(b, a); r != nil {
			return r
		}
		if !b.IsConst() && a.id > b.id {
			a, b = b, a
		}
	case OpBXor:
		if a.IsConst() {
			a, b = b, a
		}
		if b.IsConst() && b.V == 0 {
			return a
		}
		if a == b {
			return BV(w, 0)
		}
		if !b.IsConst() && a.id > b.id {
			a, b = b, a
		}
	case OpShl:
		if b.IsConst() {
			k := b.V
			if k == 0 {
				return a
			}
			if k >= uint64(w) {
				return BV(w, 0)
			}
			if a.Op == OpShl && a.B.IsConst() {
				return BinBV(OpShl, a.A, BV(w, a.B.V+k))
			}
			// value fits: express as concat(x, 0_k)
			if a.hi <= mask(w-int(k)) {
				n := bits.Len64(a.hi)
				if n == 0 {
					return BV(w, 0)
				}
				if a.Op == OpZExt && a.A.W <= w-int(k) {
					n = a.A.W
				}
				return ZExt(Concat(Extract(a, 0, n), BV(int(k), 0)), w)
			}
			return Concat(Extract(a, 0, w-int(k)), BV(int(k), 0))
		}
	case OpLShr:
		if b.IsConst() {
			k := b.V
			if k == 0 {
				return a
			}
			if k >= uint64(w) {
				return BV(w, 0)
			}
			return ZExt(Extract(a, int(k), w-int(k)), w)
		}
	case OpAShr:
		if b.IsConst() {
			k := b.V
			if k == 0 {
				return a
			}
			if a.hi <= mask(w-1) {
				return BinBV(OpLShr, a, b)
			}
			if k >= uint64(w) {
				k = uint64(w) - 1
			}
			return SExt(Extract(a, int(k), w-int(k)), w)
		}
		if a.hi <= mask(w-1) {
			return BinBV(OpLShr, a, b)
		}
	case OpUDiv:
		if n := bits.Len64(a.hi); n < w && n > 0 && b.hi <= mask(n) && !b.IsConst() {
			return ZExt(BinBV(OpUDiv, Extract(a, 0, n), Extract(b, 0, n)), w)
		}
		if b.IsConst() && b.V != 0 {
			if b.V == 1 {
				return a
			}
			if b.V&(b.V-1) == 0 {
				return BinBV(OpLShr, a, BV(w, uint64(bits.TrailingZeros64(b.V))))
			}
			if a.hi < b.V {
				return BV(w, 0)
			}
		}
	case OpURem:
		if b.IsConst() && b.V != 0 {
			if b.V&(b.V-1) == 0 {
				return BinBV(OpBAnd, a, BV(w, b.V-1))
			}
			if a.hi < b.V {
				return a
			}
		}
	case OpSDiv:
		if a.hi <= mask(w-1) && b.hi <= mask(w-1) {
			return BinBV(OpUDiv, a, b)
		}
		if b.IsConst() && b.V == 1 {
			return a
		}
	case OpSRem:
		if a.hi <= mask(w-1) && b.hi <= mask(w-1) {
			return BinBV(OpURem, a, b)
		}
	}
	return mk(op, w, a, b, nil, 0, "")
}

// orPieces: a has z low zero bits and b < 2^z -> concat(high(a), low(b)).
func orPieces(a, b *Term) *Term {
	z := lowZeros(a)
	if z <= 0 || z >= a.W || z >= 64 {
		return nil
	}
	if b.hi >= uint64(1)<<uint(z) {
		return nil
	}
	return Concat(Extract(a, z, a.W-z), Extract(b, 0, z))
}

func Cmp(op Op, a, b *Term) *Term {
	if a.W != b.W {
		panic(fmt.Sprintf("cmp width mismatch %d %d", a.W, b.W))
	}
	if a.IsConst() && b.IsConst() {
		x, y := a.V, b.V
		sx, sy := sext(x, a.W), sext(y, a.W)
		switch op {
		case OpULt:
			return Bool(x < y)
		case OpULe:
			return Bool(x <= y)
		case OpSLt:
			return Bool(sx < sy)
		case OpSLe:
			return Bool(sx <= sy)
		}
	}
	if a == b {
		return Bool(op == OpULe || op == OpSLe)
	}
	half := mask(a.W - 1)
	if op == OpSLt || op == OpSLe {
		if a.hi <= half && b.hi <= half {
			if op == OpSLt {
				op = OpULt
			} else {
				op = OpULe
			}
		} else if a.lo > half && b.lo > half {
			// both negative: same order as unsigned
			if op == OpSLt {
				op = OpULt
			} else {
				op = OpULe
			}
		} else if a.hi <= half && b.lo > half { // a >= 0 > b
			return tFalse
		} else if a.lo > half && b.hi <= half { // a < 0 <= b
			return tTrue
		}
	}
	switch op {
	case OpULt:
		if a.hi < b.lo {
			return tTrue
		}
		if a.lo >= b.hi {
			return tFalse
		}
		if a.Op == OpZExt && b.Op == OpZExt && a.A.W == b.A.W {
			return Cmp(op, a.A, b.A)
		}
		if a.Op == OpZExt && b.IsConst() && b.V <= mask(a.A.W) {
			return Cmp(op, a.A, BV(a.A.W, b.V))
		}
		if b.Op == OpZExt && a.IsConst() && a.V <= mask(b.A.W) {
			return Cmp(op, BV(b.A.W, a.V), b.A)
		}
	case OpULe:
		if a.hi <= b.lo {
			return tTrue
		}
		if a.lo > b.hi {
			return tFalse
		}
		if a.Op == OpZExt && b.Op == OpZExt && a.A.W == b.A.W {
			return Cmp(op, a.A, b.A)
		}
		if a.Op == OpZExt && b.IsConst() && b.V <= mask(a.A.W) {
			return Cmp(op, a.A, BV(a.A.W, b.V))
		}
		if b.Op == OpZExt && a.IsConst() && a.V <= mask(b.A.W) {
			return Cmp(op, BV(b.A.W, a.V), b.A)
		}
	case OpSLt, OpSLe:
		if a.Op == OpSExt && b.Op == OpSExt && a.A.W == b.A.W {
			return Cmp(op, a.A, b.A)
		}
	}
	return mk(op, 0, a, b, nil, 0, "")
}

// ---------- printing ----------

func sortStr(w int) string {
	if w == 0 {
		return "Bool"
	}
	return fmt.Sprintf("(_ BitVec %d)", w)
}

func constStr(t *Term) string {
	if t.W == 0 {
		if t.V != 0 {
			return "true"
		}
		return "false"
	}
	if t.W%4 == 0 {
		return fmt.Sprintf("#x%0*x", t.W/4, t.V)
	}
	return fmt.Sprintf("(_ bv%d %d)", t.V, t.W)
}

// ref is how a term is referred to inside SMT text once defined.
func (t *Term) ref() string {
	switch t.Op {
	case OpConst:
		return constStr(t)
	case OpVar:
		return t.Name
	}
	return fmt.Sprintf("t%d", t.id)
}

// body is the SMT expression of t in terms of refs of its children.
func (t *Term) body() string {
	switch t.Op {
	case OpZExt:
		return fmt.Sprintf("((_ zero_extend %d) %s)", t.W-t.A.W, t.A.ref())
	case OpSExt:
		return fmt.Sprintf("((_ sign_extend %d) %s)", t.W-t.A.W, t.A.ref())
	case OpExtract:
		return fmt.Sprintf("((_ extract %d %d) %s)", int(t.V)+t.W-1, t.V, t.A.ref())
	case OpNot:
		return "(not " + t.A.ref() + ")"
	case OpIte:
		return "(ite " + t.A.ref() + " " + t.B.ref() + " " + t.C.ref() + ")"
	}
	return "(" + opName[t.Op] + " " + t.A.ref() + " " + t.B.ref() + ")"
}

// String gives a human-readable (fully expanded, depth-limited) rendering.
func (t *Term) String() string { return t.str(6) }

func (t *Term) str(d int) string {
	switch t.Op {
	case OpConst:
		if t.W == 0 {
			return constStr(t)
		}
		return fmt.Sprintf("%d:%d", t.V, t.W)
	case OpVar:
		return t.Name
	}
	if d == 0 {
		return "…"
	}
	s := "(" + opName[t.Op]
	if t.Op == OpExtract {
		s += fmt.Sprintf("[%d+%d]", t.V, t.W)
	}
	for _, a := range []*Term{t.A, t.B, t.C} {
		if a != nil {
			s += " " + a.str(d-1)
		}
	}
	return s + ")"
}

// evalTerm evaluates t under an assignment of variables; ok=false if a variable is missing.
func evalTerm(t *Term, vars map[*Term]uint64, memo map[*Term]uint64) (uint64, bool) {
	switch t.Op {
	case OpConst:
		return t.V, true
	case OpVar:
		v, ok := vars[t]
		if !ok {
			// unconstrained by the path condition: fix it to 0 in this model
			vars[t] = 0
		}
		return v, true
	}
	if v, ok := memo[t]; ok {
		return v, true
	}
	a, ok := evalTerm(t.A, vars, memo)
	if !ok {
		return 0, false
	}
	var b, c uint64
	// short-circuit ite / and / or to keep evaluation cheap
	if t.Op == OpIte {
		if a != 0 {
			b, ok = evalTerm(t.B, vars, memo)
		} else {
			b, ok = evalTerm(t.C, vars, memo)
		}
		if !ok {
			return 0, false
		}
		memo[t] = b
		return b, true
	}
	if t.B != nil {
		b, ok = evalTerm(t.B, vars, memo)
		if !ok {
			return 0, false
		}
	}
	_ = c
	w := t.W
	aw := t.A.W
	var r uint64
	b2u := func(x bool) uint64 {
		if x {
			return 1
		}
		return 0
	}
	switch t.Op {
	case OpNot:
		r = 1 - a
	case OpAnd:
		r = a & b
	case OpOr:
		r = a | b
	case OpEq:
		r = b2u(a == b)
	case OpZExt:
		r = a
	case OpSExt:
		r = uint64(sext(a, aw)) & mask(w)
	case OpExtract:
		r = (a >> t.V) & mask(w)
	case OpConcat:
		r = a<<uint(t.B.W) | b
	case OpULt:
		r = b2u(a < b)
	case OpULe:
		r = b2u(a <= b)
	case OpSLt:
		r = b2u(sext(a, aw) < sext(b, aw))
	case OpSLe:
		r = b2u(sext(a, aw) <= sext(b, aw))
	default:
		cst := BinBV(t.Op, BV(w, a), BV(w, b))
		if !cst.IsConst() {
			// sdiv/srem by zero: SMT semantics irrelevant (guarded by obligations)
			return 0, false
		}
		r = cst.V
	}
	memo[t] = r
	return r, true
}

// addNorm flattens nested additions/subtractions into a canonical sum (operands ordered by id,
// constants folded, opposite terms cancelled), so that sums of the same words in a different
// order become the same term.  Returns nil when the sum is too large to flatten.
func addNorm(op Op, a, b *Term) *Term {
	w := a.W
	coef := map[*Term]uint64{}
	var order []*Term
	var k uint64
	n := 0
	var gather func(t *Term, sign uint64) bool
	gather = func(t *Term, sign uint64) bool {
		n++
		if n > 200 {
			return false
		}
		switch t.Op {
		case OpConst:
			k += sign * t.V
		case OpAdd:
			return gather(t.A, sign) && gather(t.B, sign)
		case OpSub:
			return gather(t.A, sign) && gather(t.B, -sign)
		default:
			if _, ok := coef[t]; !ok {
				order = append(order, t)
			}
			coef[t] += sign
		}
		return true
	}
	if !gather(a, 1) {
		return nil
	}
	sb := uint64(1)
	if op == OpSub {
		sb = ^uint64(0)
	}
	if !gather(b, sb) {
		return nil
	}
	m := mask(w)
	// sort by id for a canonical order
	for i := 1; i < len(order); i++ {
		for j := i; j > 0 && order[j-1].id > order[j].id; j-- {
			order[j-1], order[j] = order[j], order[j-1]
		}
	}
	var pos, neg []*Term
	for _, t := range order {
		c := coef[t] & m
		switch {
		case c == 0:
		case c == 1:
			pos = append(pos, t)
		case c == m:
			neg = append(neg, t)
		default:
			pos = append(pos, BinBV(OpMul, t, BV(w, c)))
		}
	}
	var r *Term
	for _, t := range pos {
		if r == nil {
			r = t
		} else {
			r = mk(OpAdd, w, r, t, nil, 0, "")
		}
	}
	k &= m
	if r == nil {
		r = BV(w, k)
		k = 0
	}
	for _, t := range neg {
		r = mk(OpSub, w, r, t, nil, 0, "")
	}
	if k != 0 {
		if r.IsConst() {
			r = BV(w, r.V+k)
		} else {
			r = mk(OpAdd, w, r, BV(w, k), nil, 0, "")
		}
	}
	return r
}
