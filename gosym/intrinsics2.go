package main

import (
	"fmt"
	"go/types"
	"math/bits"

	psnames "seehuhn.de/go/postscript/type1/names"

	"golang.org/x/tools/go/ssa"
)

func (e *Exec) pkgFunc(pkg, name string) *ssa.Function {
	p := e.prog.ImportedPackage(pkg)
	if p == nil {
		unsup("package %s not loaded", pkg)
	}
	f := p.Func(name)
	if f == nil {
		unsup("function %s.%s not found", pkg, name)
	}
	return f
}

func beBytes(t *Term) []*Term {
	if t.W == 0 {
		return []*Term{Ite(t, BV(8, 1), BV(8, 0))}
	}
	var out []*Term
	for sh := t.W - 8; sh >= 0; sh -= 8 {
		out = append(out, Extract(t, sh, 8))
	}
	return out
}

func leBytes(t *Term) []*Term {
	b := beBytes(t)
	for i, j := 0, len(b)-1; i < j; i, j = i+1, j-1 {
		b[i], b[j] = b[j], b[i]
	}
	return b
}

func (e *Exec) binEncode(v Value, t types.Type, little bool, out *[]*Term) {
	switch y := v.(type) {
	case *Term:
		if little {
			*out = append(*out, leBytes(y)...)
		} else {
			*out = append(*out, beBytes(y)...)
		}
	case *StructV:
		st := t.Underlying().(*types.Struct)
		for i, f := range y.f {
			e.binEncode(f, st.Field(i).Type(), little, out)
		}
	case *ArrayV:
		el := t.Underlying().(*types.Array).Elem()
		for _, f := range y.e {
			e.binEncode(f, el, little, out)
		}
	case *SliceV:
		el := t.Underlying().(*types.Slice).Elem()
		for i := 0; i < y.len; i++ {
			e.binEncode(y.at(i), el, little, out)
		}
	case *Ptr:
		e.binEncode(e.load(y, "binary.Write"), t.Underlying().(*types.Pointer).Elem(), little, out)
	case *FloatV:
		unsup("binary.Write of float")
	default:
		unsup("binary.Write of %T", v)
	}
}

func binSize(t types.Type, v Value) int {
	switch u := t.Underlying().(type) {
	case *types.Basic:
		w := widthOf(t)
		if w == 0 {
			return 1
		}
		if w > 0 {
			return w / 8
		}
	case *types.Struct:
		n := 0
		for i := 0; i < u.NumFields(); i++ {
			n += binSize(u.Field(i).Type(), nil)
		}
		return n
	case *types.Array:
		return int(u.Len()) * binSize(u.Elem(), nil)
	case *types.Slice:
		return v.(*SliceV).len * binSize(u.Elem(), nil)
	}
	unsup("binary size of %s", t)
	return 0
}

func (e *Exec) binDecode(t types.Type, old Value, bs []*Term, pos *int, little bool) Value {
	switch u := t.Underlying().(type) {
	case *types.Basic:
		w := widthOf(t)
		if w == 0 {
			b := bs[*pos]
			*pos++
			return Not(Eq(b, BV(8, 0)))
		}
		n := w / 8
		var r *Term
		for i := 0; i < n; i++ {
			var b *Term
			if little {
				b = bs[*pos+n-1-i]
			} else {
				b = bs[*pos+i]
			}
			if r == nil {
				r = b
			} else {
				r = Concat(r, b)
			}
		}
		*pos += n
		return r
	case *types.Struct:
		s := &StructV{f: make([]Value, u.NumFields())}
		for i := range s.f {
			s.f[i] = e.binDecode(u.Field(i).Type(), nil, bs, pos, little)
			if u.Field(i).Name() == "_" {
				s.f[i] = zeroOf(u.Field(i).Type())
			}
		}
		return s
	case *types.Array:
		a := &ArrayV{e: make([]Value, u.Len())}
		for i := range a.e {
			a.e[i] = e.binDecode(u.Elem(), nil, bs, pos, little)
		}
		return a
	}
	unsup("binary decode of %s", t)
	return nil
}

func isLittle(v Value) bool {
	if iv, ok := v.(*IfaceV); ok {
		return iv.t.String() == "encoding/binary.littleEndian"
	}
	return false
}

func init() {
	intrinsics["encoding/binary.Write"] = func(e *Exec, args []Value, st string) Value {
		w := args[0].(*IfaceV)
		data := args[2].(*IfaceV)
		var out []*Term
		e.binEncode(data.v, data.t, isLittle(args[1]), &out)
		r := e.writeTo(w, out, st)
		return r.(TupleV)[1]
	}
	intrinsics["encoding/binary.Read"] = func(e *Exec, args []Value, st string) Value {
		r := args[0]
		data := args[2].(*IfaceV)
		little := isLittle(args[1])
		var n int
		var elemT types.Type
		switch u := data.t.Underlying().(type) {
		case *types.Pointer:
			elemT = u.Elem()
			n = binSize(elemT, nil)
		case *types.Slice:
			n = binSize(data.t, data.v)
		default:
			unsup("binary.Read into %s", data.t)
		}
		arr := &ArrayV{e: make([]Value, n)}
		for i := range arr.e {
			arr.e[i] = BV(8, 0)
		}
		buf := &SliceV{obj: e.newObj(arr, st), len: n, cap: n}
		res := e.callFn(e.pkgFunc("io", "ReadFull"), []Value{r, buf}, nil).(TupleV)
		if !isNil(res[1]) {
			return res[1]
		}
		bs := sliceBytes(buf)
		pos := 0
		switch u := data.t.Underlying().(type) {
		case *types.Pointer:
			v := e.binDecode(elemT, nil, bs, &pos, little)
			// keep blank fields as they were
			e.store(data.v, v, st)
		case *types.Slice:
			s := data.v.(*SliceV)
			if s.len > 0 {
				e.noteWrite(s.obj, st)
			}
			for i := 0; i < s.len; i++ {
				s.obj.val.(*ArrayV).e[s.off+i] = e.binDecode(u.Elem(), nil, bs, &pos, little)
			}
		}
		return errNil()
	}

	sortSlice := func(stable bool) intrinsic {
		return func(e *Exec, args []Value, st string) Value {
			xs, ok := args[0].(*IfaceV).v.(*SliceV)
			if !ok || xs.len < 2 {
				return nil
			}
			less := args[1].(*FuncV)
			swap := &FuncV{native: func(e *Exec, a []Value) Value {
				i, j := int(e.concretize(a[0].(*Term))), int(e.concretize(a[1].(*Term)))
				e.noteWrite(xs.obj, st)
				arr := xs.obj.val.(*ArrayV)
				arr.e[xs.off+i], arr.e[xs.off+j] = arr.e[xs.off+j], arr.e[xs.off+i]
				return nil
			}}
			ls := &StructV{f: []Value{less, swap}}
			n := xs.len
			if stable {
				e.callFn(e.pkgFunc("sort", "stable_func"), []Value{ls, BV(64, uint64(n))}, nil)
			} else {
				limit := bits.Len(uint(n))
				e.callFn(e.pkgFunc("sort", "pdqsort_func"), []Value{ls, BV(64, 0), BV(64, uint64(n)), BV(64, uint64(limit))}, nil)
			}
			return nil
		}
	}
	intrinsics["sort.Slice"] = sortSlice(false)
	intrinsics["sort.SliceStable"] = sortSlice(true)

	// std slices helpers that use unsafe
	intrinsics["slices.overlaps"] = func(e *Exec, args []Value, st string) Value {
		a, b := args[0].(*SliceV), args[1].(*SliceV)
		if a.obj == nil || b.obj == nil || a.obj != b.obj || a.len == 0 || b.len == 0 {
			return tFalse
		}
		return Bool(a.off < b.off+b.len && b.off < a.off+a.len)
	}
	intrinsics["slices.startIdx"] = func(e *Exec, args []Value, st string) Value {
		hay, needle := args[0].(*SliceV), args[1].(*SliceV)
		if hay.obj == needle.obj && needle.off >= hay.off && needle.off <= hay.off+hay.cap {
			return BV(64, uint64(needle.off-hay.off))
		}
		panic(&goPanic{val: &IfaceV{t: types.Typ[types.String], v: StrV("needle not found")}, site: st})
	}
}

func describeType(t types.Type) string { return fmt.Sprint(t) }

func init() {
	// sync/atomic on plain memory cells (the executor is sequential)
	for _, ty := range []string{"Int32", "Uint32", "Int64", "Uint64", "Uintptr"} {
		ty := ty
		intrinsics["sync/atomic.Load"+ty] = func(e *Exec, args []Value, st string) Value { return e.load(args[0], st) }
		intrinsics["sync/atomic.Store"+ty] = func(e *Exec, args []Value, st string) Value { e.store(args[0], args[1], st); return nil }
		intrinsics["sync/atomic.Add"+ty] = func(e *Exec, args []Value, st string) Value {
			v := BinBV(OpAdd, e.load(args[0], st).(*Term), args[1].(*Term))
			e.store(args[0], v, st)
			return v
		}
		intrinsics["sync/atomic.Swap"+ty] = func(e *Exec, args []Value, st string) Value {
			old := e.load(args[0], st)
			e.store(args[0], args[1], st)
			return old
		}
		intrinsics["sync/atomic.CompareAndSwap"+ty] = func(e *Exec, args []Value, st string) Value {
			old := e.load(args[0], st).(*Term)
			if e.branch(Eq(old, args[1].(*Term))) {
				e.store(args[0], args[2], st)
				return tTrue
			}
			return tFalse
		}
	}
	// the atomic.X wrapper types are structs whose last field is the value
	field := func(p Value) *Ptr {
		pp := p.(*Ptr)
		sv := navigate(pp.obj.val, pp.path).(*StructV)
		np := append(append([]int{}, pp.path...), len(sv.f)-1)
		return &Ptr{obj: pp.obj, path: np}
	}
	for _, ty := range []string{"Int32", "Uint32", "Int64", "Uint64", "Uintptr", "Bool"} {
		ty := ty
		pre := "(*sync/atomic." + ty + ")."
		intrinsics[pre+"Load"] = func(e *Exec, args []Value, st string) Value {
			v := e.load(field(args[0]), st).(*Term)
			if ty == "Bool" {
				return Not(Eq(v, BV(v.W, 0)))
			}
			return v
		}
		intrinsics[pre+"Store"] = func(e *Exec, args []Value, st string) Value {
			v := args[1].(*Term)
			if ty == "Bool" {
				v = Ite(v, BV(32, 1), BV(32, 0))
			}
			e.store(field(args[0]), v, st)
			return nil
		}
		intrinsics[pre+"Add"] = func(e *Exec, args []Value, st string) Value {
			v := BinBV(OpAdd, e.load(field(args[0]), st).(*Term), args[1].(*Term))
			e.store(field(args[0]), v, st)
			return v
		}
		intrinsics[pre+"CompareAndSwap"] = func(e *Exec, args []Value, st string) Value {
			old := e.load(field(args[0]), st).(*Term)
			want, nv := args[1].(*Term), args[2].(*Term)
			if ty == "Bool" {
				want, nv = Ite(want, BV(32, 1), BV(32, 0)), Ite(nv, BV(32, 1), BV(32, 0))
			}
			if e.branch(Eq(old, want)) {
				e.store(field(args[0]), nv, st)
				return tTrue
			}
			return tFalse
		}
	}
	intrinsics["(*sync.Mutex).Lock"] = func(e *Exec, args []Value, st string) Value { return nil }
	intrinsics["(*sync.Mutex).Unlock"] = func(e *Exec, args []Value, st string) Value { return nil }
	intrinsics["(*sync.RWMutex).Lock"] = func(e *Exec, args []Value, st string) Value { return nil }
	intrinsics["(*sync.RWMutex).Unlock"] = func(e *Exec, args []Value, st string) Value { return nil }
	intrinsics["(*sync.RWMutex).RLock"] = func(e *Exec, args []Value, st string) Value { return nil }
	intrinsics["(*sync.RWMutex).RUnlock"] = func(e *Exec, args []Value, st string) Value { return nil }
	intrinsics["sync.runtime_registerPoolCleanup"] = func(e *Exec, args []Value, st string) Value { return nil }
}

func init() {
	// Adobe glyph list functions: native on concrete strings (the package parses an embedded glyph list lazily)
	intrinsics["seehuhn.de/go/postscript/type1/names.FromUnicode"] = func(e *Exec, args []Value, st string) Value {
		return StrV(psnames.FromUnicode(mustStr(args[0], "names.FromUnicode")))
	}
	intrinsics["seehuhn.de/go/postscript/type1/names.IsValid"] = func(e *Exec, args []Value, st string) Value {
		if cs, ok := concStr(args[0]); ok {
			return Bool(psnames.IsValid(cs))
		}
		// symbolic name: interpret the real function
		if pkg := e.prog.ImportedPackage("seehuhn.de/go/postscript/type1/names"); pkg != nil {
			if fn := pkg.Func("IsValid"); fn != nil && len(fn.Blocks) > 0 {
				return e.callFn(fn, args, nil)
			}
		}
		unsup("names.IsValid with symbolic string")
		return nil
	}
}
