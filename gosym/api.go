package main

import (
	"encoding/hex"
	"fmt"
	"strconv"
)

var verifAPI = map[string]intrinsic{}

func argStr(v Value) string {
	s, ok := concStr(v)
	if !ok {
		panic("verif API: tag/label must be a concrete string")
	}
	return s
}

func argInt(v Value) int {
	t := v.(*Term)
	if !t.IsConst() {
		panic("verif API: size argument must be concrete")
	}
	return int(sext(t.V, t.W))
}

func obsFmt2(e *Exec, v Value) string {
	iv, ok := v.(*IfaceV)
	if !ok {
		return "nil"
	}
	switch x := iv.v.(type) {
	case *Term:
		if !x.IsConst() {
			return "<sym>"
		}
		if x.W == 0 {
			return strconv.FormatBool(x.V != 0)
		}
		if isSigned(iv.t) {
			return strconv.FormatInt(sext(x.V, x.W), 10)
		}
		return strconv.FormatUint(x.V, 10)
	case StrV, *SStrV:
		if s, ok := concStr(x); ok {
			return strconv.Quote(s)
		}
		return "<sym>"
	case *FloatV:
		if x.sym {
			return "<sym>"
		}
		return strconv.FormatFloat(x.c, 'g', -1, 64)
	case *SliceV:
		var bs []byte
		for i := 0; i < x.len; i++ {
			t, ok := x.at(i).(*Term)
			if !ok || t.W != 8 {
				return "?"
			}
			if !t.IsConst() {
				return "<sym>"
			}
			bs = append(bs, byte(t.V))
		}
		return "x" + hex.EncodeToString(bs)
	case NilV:
		return "nil"
	}
	return "?"
}

func init() {
	scalar := func(kind string, w int) intrinsic {
		return func(e *Exec, args []Value, st string) Value { return e.fresh(argStr(args[0]), kind, w) }
	}
	verifAPI["verifU8"] = scalar("u8", 8)
	verifAPI["verifU16"] = scalar("u16", 16)
	verifAPI["verifU32"] = scalar("u32", 32)
	verifAPI["verifU64"] = scalar("u64", 64)
	verifAPI["verifI8"] = scalar("u8", 8)
	verifAPI["verifI16"] = scalar("u16", 16)
	verifAPI["verifI32"] = scalar("u32", 32)
	verifAPI["verifI64"] = scalar("u64", 64)
	verifAPI["verifInt"] = scalar("u64", 64)
	verifAPI["verifBool"] = scalar("bool", 0)
	verifAPI["verifBytes"] = func(e *Exec, args []Value, st string) Value {
		tag, n := argStr(args[0]), argInt(args[1])
		arr := &ArrayV{e: make([]Value, n)}
		for i := range arr.e {
			arr.e[i] = e.fresh(fmt.Sprintf("%s.%d", tag, i), "u8", 8)
		}
		return &SliceV{obj: e.newObj(arr, "verifBytes "+tag), len: n, cap: n}
	}
	verifAPI["verifStr"] = func(e *Exec, args []Value, st string) Value {
		tag, n := argStr(args[0]), argInt(args[1])
		bs := make([]*Term, n)
		for i := range bs {
			bs[i] = e.fresh(fmt.Sprintf("%s.%d", tag, i), "u8", 8)
		}
		return mkStr(bs)
	}
	verifAPI["verifDyadic"] = func(e *Exec, args []Value, st string) Value {
		tag, frac := argStr(args[0]), argInt(args[1])
		lo, hi := sext(args[2].(*Term).V, 64), sext(args[3].(*Term).V, 64)
		m := e.fresh(tag, "u64", 64)
		e.assume(And(Cmp(OpSLe, BV(64, uint64(lo)), m), Cmp(OpSLe, m, BV(64, uint64(hi)))), "dyadic range")
		nb := bitlenI(lo)
		if b := bitlenI(hi); b > nb {
			nb = b
		}
		return mkDyad(m, -frac, nb)
	}
	verifAPI["verifChoose"] = func(e *Exec, args []Value, st string) Value {
		tag, n := argStr(args[0]), argInt(args[1])
		var k int
		if e.concrete != nil {
			k = int(e.fresh(tag, "choose", 64).V)
			return BV(64, uint64(k))
		}
		k = e.choose(n)
		e.inputs = append(e.inputs, inputRec{Tag: tag, Kind: "choose", t: BV(64, uint64(k))})
		return BV(64, uint64(k))
	}
	verifAPI["verifAssume"] = func(e *Exec, args []Value, st string) Value {
		e.assume(args[0].(*Term), st)
		return nil
	}
	verifAPI["verifAssert"] = func(e *Exec, args []Value, st string) Value {
		e.obligation(args[0].(*Term), "assert", argStr(args[1]), "")
		return nil
	}
	verifAPI["verifReach"] = func(e *Exec, args []Value, st string) Value {
		e.Reached[argStr(args[0])]++
		e.pathReached = append(e.pathReached, argStr(args[0]))
		return nil
	}
	verifAPI["verifObserve"] = func(e *Exec, args []Value, st string) Value {
		if e.concrete != nil {
			e.observed = append(e.observed, argStr(args[0])+"="+obsFmt2(e, args[1]))
		}
		return nil
	}
	verifAPI["verifUnwind"] = func(e *Exec, args []Value, st string) Value {
		e.unwind = argInt(args[0])
		return nil
	}
	verifAPI["verifMapOrder"] = func(e *Exec, args []Value, st string) Value {
		e.mapOrder = args[0].(*Term).V != 0
		return nil
	}
	verifAPI["verifFreeze"] = func(e *Exec, args []Value, st string) Value {
		e.frozen = e.objN
		e.frozenMap = e.mapN
		return nil
	}
	verifAPI["verifThaw"] = func(e *Exec, args []Value, st string) Value {
		e.frozen = 0
		e.frozenMap = 0
		return nil
	}
	verifAPI["verifClass"] = func(e *Exec, args []Value, st string) Value {
		e.class = argStr(args[0])
		return nil
	}
	verifAPI["verifAllocLimit"] = func(e *Exec, args []Value, st string) Value {
		e.allocLimit = int64(argInt(args[0]))
		return nil
	}
	verifAPI["verifStub"] = func(e *Exec, args []Value, st string) Value {
		e.Stubs[argStr(args[0])] = true
		return nil
	}
	verifAPI["verifNote"] = func(e *Exec, args []Value, st string) Value {
		e.Assumes[argStr(args[0])] = true
		return nil
	}
	verifAPI["verifParam"] = func(e *Exec, args []Value, st string) Value {
		name := argStr(args[0])
		if v, ok := e.params[name]; ok {
			return BV(64, uint64(int64(v)))
		}
		return args[1]
	}
	// verifIsSym reports whether the engine runs symbolically (false natively)
	verifAPI["verifSymbolic"] = func(e *Exec, args []Value, st string) Value {
		return Bool(e.concrete == nil)
	}
}
