package main

import (
	"encoding/hex"
	"fmt"
	"go/types"
	"strconv"
)

var verifAPI = map[string]intrinsic{}

func argStr(v Value) string {
	s, ok := concStr(v)
	if !ok {
		panic("verif API: tag/label must be a concrete string")
	}
	return s
}

func argInt(v Value) int {
	t := v.(*Term)
	if !t.IsConst() {
		panic("verif API: size argument must be concrete")
	}
	return int(sext(t.V, t.W))
}

func obsFmt2(e *Exec, v Value) string {
	iv, ok := v.(*IfaceV)
	if !ok {
		return "nil"
	}
	switch x := iv.v.(type) {
	case *Term:
		if !x.IsConst() {
			return "<sym>"
		}
		if x.W == 0 {
			return strconv.FormatBool(x.V != 0)
		}
		if isSigned(iv.t) {
			return strconv.FormatInt(sext(x.V, x.W), 10)
		}
		return strconv.FormatUint(x.V, 10)
	case StrV, *SStrV:
		if s, ok := concStr(x); ok {
			return strconv.Quote(s)
		}
		return "<sym>"
	case *FloatV:
		if x.sym {
			return "<sym>"
		}
		return strconv.FormatFloat(x.c, 'g', -1, 64)
	case *SliceV:
		var bs []byte
		for i := 0; i < x.len; i++ {
			t, ok := x.at(i).(*Term)
			if !ok || t.W != 8 {
				return "?"
			}
			if !t.IsConst() {
				return "<sym>"
			}
			bs = append(bs, byte(t.V))
		}
		return "x" + hex.EncodeToString(bs)
	case NilV:
		return "nil"
	}
	return "?"
}

func init() {
	scalar := func(kind string, w int) intrinsic {
		return func(e *Exec, args []Value, st string) Value { return e.fresh(argStr(args[0]), kind, w) }
	}
	verifAPI["verifU8"] = scalar("u8", 8)
	verifAPI["verifU16"] = scalar("u16", 16)
	verifAPI["verifU32"] = scalar("u32", 32)
	verifAPI["verifU64"] = scalar("u64", 64)
	verifAPI["verifI8"] = scalar("u8", 8)
	verifAPI["verifI16"] = scalar("u16", 16)
	verifAPI["verifI32"] = scalar("u32", 32)
	verifAPI["verifI64"] = scalar("u64", 64)
	verifAPI["verifInt"] = scalar("u64", 64)
	verifAPI["verifBool"] = scalar("bool", 0)
	verifAPI["verifBytes"] = func(e *Exec, args []Value, st string) Value {
		tag, n := argStr(args[0]), argInt(args[1])
		arr := &ArrayV{e: make([]Value, n)}
		for i, t := range e.freshBytes(tag, n) {
			arr.e[i] = t
		}
		return &SliceV{obj: e.newObj(arr, "verifBytes "+tag), len: n, cap: n}
	}
	verifAPI["verifBytesLenOnly"] = func(e *Exec, args []Value, st string) Value {
		tag, mx := argStr(args[0]), argInt(args[1])
		n := e.fresh(tag, "u64", 64)
		e.assume(Cmp(OpULe, n, BV(64, uint64(mx))), "length bound")
		if n.IsConst() {
			arr := &ArrayV{e: make([]Value, n.V)}
			for i := range arr.e {
				arr.e[i] = BV(8, 0)
			}
			return &SliceV{obj: e.newObj(arr, "verifBytesLenOnly"), len: int(n.V), cap: int(n.V)}
		}
		return &SliceV{obj: e.newObj(&ArrayV{}, "verifBytesLenOnly "+tag), symLen: n}
	}
	verifAPI["verifStr"] = func(e *Exec, args []Value, st string) Value {
		tag, n := argStr(args[0]), argInt(args[1])
		return mkStr(append([]*Term{}, e.freshBytes(tag, n)...))
	}
	verifAPI["verifDyadic"] = func(e *Exec, args []Value, st string) Value {
		tag, frac := argStr(args[0]), argInt(args[1])
		lo, hi := sext(args[2].(*Term).V, 64), sext(args[3].(*Term).V, 64)
		m := e.fresh(tag, "u64", 64)
		e.assume(And(Cmp(OpSLe, BV(64, uint64(lo)), m), Cmp(OpSLe, m, BV(64, uint64(hi)))), "dyadic range")
		mg := absI(lo)
		if b := absI(hi); b > mg {
			mg = b
		}
		return mkDyad(m, -frac, mg)
	}
	verifAPI["verifChoose"] = func(e *Exec, args []Value, st string) Value {
		tag, n := argStr(args[0]), argInt(args[1])
		var k int
		if e.concrete != nil {
			k = int(e.fresh(tag, "choose", 64).V)
			return BV(64, uint64(k))
		}
		k = e.choose(n)
		e.inputs = append(e.inputs, inputRec{Tag: tag, Kind: "choose", t: BV(64, uint64(k))})
		return BV(64, uint64(k))
	}
	verifAPI["verifAssume"] = func(e *Exec, args []Value, st string) Value {
		e.assume(args[0].(*Term), st)
		return nil
	}
	verifAPI["verifAssert"] = func(e *Exec, args []Value, st string) Value {
		if c := args[0].(*Term); c.IsConst() && c.V != 0 {
			// decided by the path split that made the condition concrete
			e.Obligations++
			e.Discharged++
			return nil
		}
		e.obligation(args[0].(*Term), "assert", argStr(args[1]), "")
		return nil
	}
	verifAPI["verifReach"] = func(e *Exec, args []Value, st string) Value {
		e.Reached[argStr(args[0])]++
		e.pathReached = append(e.pathReached, argStr(args[0]))
		return nil
	}
	verifAPI["verifObserve"] = func(e *Exec, args []Value, st string) Value {
		if e.concrete != nil {
			e.observed = append(e.observed, argStr(args[0])+"="+obsFmt2(e, args[1]))
		}
		return nil
	}
	verifAPI["verifUnwind"] = func(e *Exec, args []Value, st string) Value {
		e.unwind = argInt(args[0])
		return nil
	}
	verifAPI["verifLoopCut"] = func(e *Exec, args []Value, st string) Value {
		// paths on which some loop runs more than n iterations are cut (outside the claim, counted and reported)
		e.cutBound = argInt(args[0])
		if e.cutBound > 0 {
			e.Assumes[fmt.Sprintf("paths on which a loop with an input-dependent exit condition runs more than %d iterations are cut: such inputs are outside the claim", e.cutBound)] = true
		}
		return nil
	}
	verifAPI["verifSchedules"] = func(e *Exec, args []Value, st string) Value {
		// explore every interleaving of goroutines at channel-operation granularity (choose decisions)
		e.schedExplore = args[0].(*Term).V != 0
		return nil
	}
	verifAPI["verifPreemptions"] = func(e *Exec, args []Value, st string) Value {
		// context bound: at most n preemptive switches (a goroutine that could continue is descheduled) per run;
		// switches forced by blocking are always explored in full
		e.preemptLeft = argInt(args[0])
		e.Assumes[fmt.Sprintf("schedule exploration bounded to %d preemptive context switches per run", e.preemptLeft)] = true
		return nil
	}
	verifAPI["verifLeaked"] = func(e *Exec, args []Value, st string) Value {
		// number of goroutines that can never finish once the harness goroutine stops communicating
		left := e.settle()
		if len(left) > 0 {
			e.leakDesc = e.describeBlocked()
		}
		return BV(64, uint64(len(left)))
	}
	verifAPI["verifMapOrder"] = func(e *Exec, args []Value, st string) Value {
		e.mapOrder = args[0].(*Term).V != 0
		return nil
	}
	verifAPI["verifFreeze"] = func(e *Exec, args []Value, st string) Value {
		e.frozen = e.objN
		e.frozenMap = e.mapN
		return nil
	}
	verifAPI["verifThaw"] = func(e *Exec, args []Value, st string) Value {
		e.frozen = 0
		e.frozenMap = 0
		return nil
	}
	verifAPI["verifShared"] = func(e *Exec, args []Value, st string) Value { return nil }
	verifAPI["verifClass"] = func(e *Exec, args []Value, st string) Value {
		e.class = argStr(args[0])
		return nil
	}
	verifAPI["verifAllocLimit"] = func(e *Exec, args []Value, st string) Value {
		e.allocLimit = int64(argInt(args[0]))
		return nil
	}
	verifAPI["verifStub"] = func(e *Exec, args []Value, st string) Value {
		e.Stubs[argStr(args[0])] = true
		return nil
	}
	verifAPI["verifNote"] = func(e *Exec, args []Value, st string) Value {
		e.Assumes[argStr(args[0])] = true
		return nil
	}
	verifAPI["verifParam"] = func(e *Exec, args []Value, st string) Value {
		name := argStr(args[0])
		if v, ok := e.params[name]; ok {
			return BV(64, uint64(int64(v)))
		}
		return args[1]
	}
	verifAPI["verifSame"] = func(e *Exec, args []Value, st string) Value {
		return e.deepEq(args[0], args[1], 0)
	}
	// verifIsSym reports whether the engine runs symbolically (false natively)
	verifAPI["verifSymbolic"] = func(e *Exec, args []Value, st string) Value {
		return Bool(e.concrete == nil)
	}
}

// deepEq builds one term expressing deep equality of two values (nil and empty slices are equal).
func (e *Exec) deepEq(a, b Value, depth int) *Term {
	if depth > 40 {
		unsup("verifSame: structure too deep (cyclic?)")
	}
	if isNil(a) || isNil(b) {
		emptyOrNil := func(v Value) bool {
			if isNil(v) {
				return true
			}
			if s, ok := v.(*SliceV); ok {
				return s.len == 0
			}
			if m, ok := v.(*MapV); ok {
				return m.live() == 0
			}
			return false
		}
		return Bool(emptyOrNil(a) && emptyOrNil(b))
	}
	switch x := a.(type) {
	case *Term:
		return Eq(x, b.(*Term))
	case *FloatV:
		return fCmp(OpEq, x, b.(*FloatV))
	case StrV, *SStrV:
		return e.valEq(a, b)
	case *StructV:
		y := b.(*StructV)
		r := tTrue
		for i := range x.f {
			r = And(r, e.deepEq(x.f[i], y.f[i], depth+1))
		}
		return r
	case *ArrayV:
		y := b.(*ArrayV)
		r := tTrue
		for i := range x.e {
			r = And(r, e.deepEq(x.e[i], y.e[i], depth+1))
		}
		return r
	case *SliceV:
		y, ok := b.(*SliceV)
		if !ok || x.len != y.len {
			return tFalse
		}
		r := tTrue
		for i := 0; i < x.len; i++ {
			r = And(r, e.deepEq(x.at(i), y.at(i), depth+1))
			if r == tFalse {
				break
			}
		}
		return r
	case *Ptr:
		y, ok := b.(*Ptr)
		if !ok {
			return tFalse
		}
		if x.obj == y.obj && pathEq(x.path, y.path) && x.symIdx == y.symIdx {
			return tTrue
		}
		return e.deepEq(e.load(x, "verifSame"), e.load(y, "verifSame"), depth+1)
	case *IfaceV:
		y, ok := b.(*IfaceV)
		if !ok || !types.Identical(x.t, y.t) {
			return tFalse
		}
		return e.deepEq(x.v, y.v, depth+1)
	case *MapV:
		y, ok := b.(*MapV)
		if !ok || x.live() != y.live() {
			// with symbolic keys the live counts may still differ in meaning; keys must be concrete here
			if !ok {
				return tFalse
			}
		}
		r := tTrue
		for _, en := range x.ent {
			if en.deleted {
				continue
			}
			found := tFalse
			for _, en2 := range y.ent {
				if en2.deleted {
					continue
				}
				found = Or(found, And(e.valEq(en.key, en2.key), e.deepEq(en.val, en2.val, depth+1)))
			}
			r = And(r, found)
		}
		for _, en2 := range y.ent {
			if en2.deleted {
				continue
			}
			found := tFalse
			for _, en := range x.ent {
				if en.deleted {
					continue
				}
				found = Or(found, e.valEq(en.key, en2.key))
			}
			r = And(r, found)
		}
		return r
	case *FuncV:
		return Bool(a == b)
	case *NativeV:
		return e.valEq(a, b)
	}
	unsup("verifSame on %T", a)
	return nil
}
