package main

import "testing"

func TestAssemble(t *testing.T) {
	X := Var("X", 32)
	bs := beBytes(X)
	// ref style: w <<= 8; w |= uint32(b)
	w := BV(32, 0)
	for _, b := range bs {
		w = BinBV(OpShl, w, BV(32, 8))
		w = BinBV(OpBOr, w, ZExt(b, 32))
	}
	if w != X {
		t.Errorf("shift-or assembly: got %s", w)
	}
	// BigEndian.Uint32 style
	u := BinBV(OpBOr, BinBV(OpBOr, BinBV(OpBOr, ZExt(bs[3], 32), BinBV(OpShl, ZExt(bs[2], 32), BV(32, 8))), BinBV(OpShl, ZExt(bs[1], 32), BV(32, 16))), BinBV(OpShl, ZExt(bs[0], 32), BV(32, 24)))
	if u != X {
		t.Errorf("Uint32 assembly: got %s", u)
	}
	// 4 independent bytes: both styles give the same term
	var by [4]*Term
	for i := range by {
		by[i] = Var("b"+string(rune('0'+i)), 8)
	}
	w = BV(32, 0)
	for _, b := range by {
		w = BinBV(OpShl, w, BV(32, 8))
		w = BinBV(OpBOr, w, ZExt(b, 32))
	}
	u = BinBV(OpBOr, BinBV(OpBOr, BinBV(OpBOr, ZExt(by[3], 32), BinBV(OpShl, ZExt(by[2], 32), BV(32, 8))), BinBV(OpShl, ZExt(by[1], 32), BV(32, 16))), BinBV(OpShl, ZExt(by[0], 32), BV(32, 24)))
	if u != w {
		t.Errorf("assembly styles differ:\n %s\n %s", w, u)
	}
	// sums in different order
	a, b, c := Var("a", 32), Var("b", 32), Var("c", 32)
	s1 := BinBV(OpAdd, BinBV(OpAdd, a, b), c)
	s2 := BinBV(OpAdd, c, BinBV(OpAdd, b, a))
	if s1 != s2 {
		t.Errorf("sum order: %s vs %s", s1, s2)
	}
	d := BinBV(OpSub, BinBV(OpAdd, s1, BV(32, 5)), s2)
	if !d.IsConst() || d.V != 5 {
		t.Errorf("cancellation: %s", d)
	}
}
