package main

// Goroutines and channels.
//
// Interpreted goroutines are real goroutines of the engine that pass a baton: exactly one of them runs at any
// time, all others are parked on their wake channel.  Control changes hands only at synchronisation points
// (go statement, channel send / receive / close, goroutine exit).  With verifSchedules(true) every such point
// at which more than one goroutine could continue is a recorded `choose` decision, so the depth-first
// exploration enumerates all interleavings at the granularity of channel operations; otherwise the policy is
// deterministic (run the current goroutine until it blocks, then the runnable goroutine with the lowest id).
// This is exhaustive for programs whose goroutines communicate through channels only (steps between two
// synchronisation points of different goroutines commute); that assumption is recorded with every use.
//
// Obligations: "all goroutines are asleep" while the harness goroutine is blocked is a deadlock finding; a
// panic that reaches the top of a spawned goroutine is a crash finding; verifLeaked() reports goroutines that
// can never finish once the harness goroutine has stopped communicating.

import (
	"fmt"
	"go/types"

	"golang.org/x/tools/go/ssa"
)

type gor struct {
	id      int
	name    string
	wake    chan struct{}
	dead    chan struct{}
	kill    bool
	done    bool
	blocked string // non-empty while parked in a channel operation
	// saved interpreter state while not running
	stack     []*ssa.Function
	panicking *goPanic
	curSite   string
	// result of a channel operation completed by the partner
	rval    Value
	rok     bool
	rclosed bool
}

type waiter struct {
	g   *gor
	val Value
}

type ChanV struct {
	id     int
	cap    int
	elem   types.Type
	buf    []Value
	closed bool
	sendq  []*waiter
	recvq  []*waiter
	site   string
}

type killSentinel struct{}

func (e *Exec) initGoroutines() {
	e.gs = []*gor{{id: 0, name: "harness", wake: make(chan struct{}), dead: make(chan struct{})}}
	e.cur = e.gs[0]
	e.runq = nil
	e.xfer = nil
	e.schedExplore = false
	e.preemptLeft = -1
}

// killGoroutines unwinds every parked interpreter goroutine of the finished path.
func (e *Exec) killGoroutines() {
	for _, g := range e.gs[1:] {
		if g.done {
			continue
		}
		g.kill = true
		g.wake <- struct{}{}
		<-g.dead
	}
	e.initGoroutines()
}

func (e *Exec) saveCur() {
	g := e.cur
	g.stack, g.panicking, g.curSite = e.stack, e.panicking, e.curSite
}

// resume hands the baton to next; the caller parks afterwards (or exits if it is finished).
func (e *Exec) resume(next *gor) {
	e.cur = next
	e.stack, e.panicking, e.curSite = next.stack, next.panicking, next.curSite
	next.wake <- struct{}{}
}

// park waits for the baton.
func (e *Exec) park(g *gor) {
	<-g.wake
	if g.kill {
		panic(killSentinel{})
	}
	if g.id == 0 && e.xfer != nil {
		r := e.xfer
		e.xfer = nil
		panic(r)
	}
}

func (e *Exec) removeRunq(i int) *gor {
	g := e.runq[i]
	e.runq = append(e.runq[:i:i], e.runq[i+1:]...)
	return g
}

// pickNext chooses the goroutine that continues when the current one cannot.
func (e *Exec) pickNext() *gor {
	if len(e.runq) == 0 {
		return nil
	}
	k := 0
	if e.schedExplore && len(e.runq) > 1 {
		k = e.choose(len(e.runq))
	} else {
		for i, g := range e.runq {
			if g.id < e.runq[k].id {
				k = i
			}
		}
	}
	return e.removeRunq(k)
}

func (e *Exec) describeBlocked() string {
	s := ""
	for _, g := range e.gs {
		if !g.done {
			s += fmt.Sprintf(" [goroutine %d (%s): %s]", g.id, g.name, g.blocked)
		}
	}
	return s
}

// abortPath ends the path from whichever goroutine currently holds the baton.
func (e *Exec) abortPath(r interface{}) {
	if e.cur.id == 0 {
		panic(r)
	}
	e.xfer = r
	me := e.cur
	e.saveCur()
	e.resume(e.gs[0])
	e.park(me) // only ever woken to be killed
}

// block parks the current goroutine (already registered in some wait queue) and runs another one.
func (e *Exec) block(why string) {
	me := e.cur
	me.blocked = why
	next := e.pickNext()
	if next == nil {
		e.curSite = me.curSite
		if e.s == nil || e.s.Check() == "sat" {
			e.record("deadlock", "all goroutines are asleep:"+e.describeBlocked(), e.curSite)
		}
		e.abortPath(pathEnd{"deadlock"})
		return
	}
	e.saveCur()
	e.resume(next)
	e.park(me)
	me.blocked = ""
}

// schedPoint: another goroutine has become runnable; with schedule exploration the current one may be preempted.
func (e *Exec) schedPoint() {
	if !e.schedExplore || len(e.runq) == 0 || e.spec > 0 || e.preemptLeft == 0 {
		return
	}
	k := e.choose(1 + len(e.runq))
	if k == 0 {
		return
	}
	if e.preemptLeft > 0 {
		e.preemptLeft--
	}
	me := e.cur
	next := e.removeRunq(k - 1)
	e.runq = append(e.runq, me)
	e.saveCur()
	e.resume(next)
	e.park(me)
}

// spawn starts an interpreted goroutine running body.
func (e *Exec) spawn(name string, body func()) {
	if e.initPhase {
		unsup("go statement during package initialisation")
	}
	g := &gor{id: len(e.gs), name: name, wake: make(chan struct{}), dead: make(chan struct{})}
	e.gs = append(e.gs, g)
	e.Assumes["goroutines are interleaved at channel operations only (they are assumed to share no other mutable state)"] = true
	go func() {
		defer close(g.dead)
		<-g.wake
		if g.kill {
			return
		}
		defer func() {
			r := recover()
			if _, ok := r.(killSentinel); ok {
				return
			}
			// the goroutine has finished (or aborted the path) and still holds the baton
			g.done = true
			if r != nil {
				if gp, ok := r.(*goPanic); ok {
					if e.s == nil || e.s.Check() == "sat" {
						e.record("panic", "panic in goroutine "+g.name+": "+describePanic(gp.val), gp.site)
					}
					r = pathEnd{"panic"}
				}
				e.xfer = r
				e.resume(e.gs[0])
				return
			}
			next := e.pickNext()
			if next == nil {
				// everybody else is blocked (the harness goroutine is parked, so it is blocked too)
				if e.s == nil || e.s.Check() == "sat" {
					e.record("deadlock", "all goroutines are asleep:"+e.describeBlocked(), e.curSite)
				}
				e.xfer = pathEnd{"deadlock"}
				next = e.gs[0]
			}
			e.resume(next)
		}()
		body()
	}()
	e.runq = append(e.runq, g)
	e.schedPoint()
}

func (e *Exec) makeChan(elem types.Type, size *Term, st string) *ChanV {
	e.chanN++
	return &ChanV{id: e.chanN, cap: int(e.concretize(size)), elem: elem, site: st}
}

func (e *Exec) wakeUp(g *gor) {
	e.runq = append(e.runq, g)
}

func (e *Exec) chanSend(cv Value, v Value, st string) {
	e.curSite = st
	ch, ok := cv.(*ChanV)
	if !ok {
		e.block("send on nil channel at " + st)
		unsup("goroutine blocked on a nil channel was resumed")
	}
	if ch.closed {
		panic(&goPanic{val: e.errString("send on closed channel"), site: st})
	}
	if len(ch.recvq) > 0 {
		w := ch.recvq[0]
		ch.recvq = ch.recvq[1:]
		w.g.rval, w.g.rok = v, true
		e.wakeUp(w.g)
		e.schedPoint()
		return
	}
	if len(ch.buf) < ch.cap {
		ch.buf = append(ch.buf, v)
		return
	}
	me := e.cur
	me.rclosed = false
	ch.sendq = append(ch.sendq, &waiter{g: me, val: v})
	e.block("chan send at " + st)
	if me.rclosed {
		me.rclosed = false
		panic(&goPanic{val: e.errString("send on closed channel"), site: st})
	}
}

func (e *Exec) chanRecv(cv Value, st string) (Value, bool) {
	e.curSite = st
	ch, ok := cv.(*ChanV)
	if !ok {
		e.block("receive from nil channel at " + st)
		unsup("goroutine blocked on a nil channel was resumed")
	}
	if len(ch.buf) > 0 {
		v := ch.buf[0]
		ch.buf = ch.buf[1:]
		if len(ch.sendq) > 0 {
			w := ch.sendq[0]
			ch.sendq = ch.sendq[1:]
			ch.buf = append(ch.buf, w.val)
			e.wakeUp(w.g)
			e.schedPoint()
		}
		return v, true
	}
	if len(ch.sendq) > 0 {
		w := ch.sendq[0]
		ch.sendq = ch.sendq[1:]
		e.wakeUp(w.g)
		e.schedPoint()
		return w.val, true
	}
	if ch.closed {
		return zeroOf(ch.elem), false
	}
	me := e.cur
	ch.recvq = append(ch.recvq, &waiter{g: me})
	e.block("chan receive at " + st)
	v, rok := me.rval, me.rok
	me.rval = nil
	if !rok {
		return zeroOf(ch.elem), false
	}
	return v, true
}

func (e *Exec) chanClose(cv Value, st string) {
	e.curSite = st
	ch, ok := cv.(*ChanV)
	if !ok {
		panic(&goPanic{val: e.errString("close of nil channel"), site: st})
	}
	if ch.closed {
		panic(&goPanic{val: e.errString("close of closed channel"), site: st})
	}
	ch.closed = true
	woke := false
	for _, w := range ch.recvq {
		w.g.rval, w.g.rok = nil, false
		e.wakeUp(w.g)
		woke = true
	}
	ch.recvq = nil
	for _, w := range ch.sendq {
		w.g.rclosed = true
		e.wakeUp(w.g)
		woke = true
	}
	ch.sendq = nil
	if woke {
		e.schedPoint()
	}
}

// errString builds the value of a runtime error panic (an error interface holding a string-like struct).
func (e *Exec) errString(msg string) Value {
	return &IfaceV{t: types.Typ[types.String], v: StrV(msg)}
}

// settle lets every other goroutine run until it finishes or blocks for good; returns the ones left over.
func (e *Exec) settle() []*gor {
	me := e.cur
	for len(e.runq) > 0 {
		next := e.pickNext()
		e.runq = append(e.runq, me)
		e.saveCur()
		e.resume(next)
		e.park(me)
		// we were picked from the run queue again: everybody in front of us has run until blocking
	}
	var left []*gor
	for _, g := range e.gs {
		if g != me && !g.done {
			left = append(left, g)
		}
	}
	return left
}
