package main

import (
	"fmt"
	"os"
	"sort"
	"strings"

	"golang.org/x/tools/go/packages"
	"golang.org/x/tools/go/ssa"
	"golang.org/x/tools/go/ssa/ssautil"
)

func main() {
	cfg := &packages.Config{Mode: packages.LoadAllSyntax, Dir: "/repo", BuildFlags: []string{"-tags=verif"}}
	pkgs, err := packages.Load(cfg, os.Args[1:]...)
	if err != nil {
		panic(err)
	}
	packages.PrintErrors(pkgs)
	prog, _ := ssautil.AllPackages(pkgs, ssa.InstantiateGenerics)
	prog.Build()
	ext := map[string]int{}
	kinds := map[string]int{}
	for fn := range ssautil.AllFunctions(prog) {
		if fn.Pkg == nil && fn.Origin() == nil {
			continue
		}
		p := fn.Pkg
		if p == nil {
			p = fn.Origin().Pkg
		}
		if p == nil || !strings.HasPrefix(p.Pkg.Path(), "seehuhn.de/go/sfnt") || strings.Contains(p.Pkg.Path(), "examples") || strings.Contains(p.Pkg.Path(), "testcases") || strings.Contains(p.Pkg.Path(), "internal") {
			continue
		}
		for _, b := range fn.Blocks {
			for _, in := range b.Instrs {
				kinds[fmt.Sprintf("%T", in)]++
				if c, ok := in.(ssa.CallInstruction); ok {
					if cal := c.Common().StaticCallee(); cal != nil {
						cp := cal.Pkg
						if cp == nil && cal.Origin() != nil {
							cp = cal.Origin().Pkg
						}
						if cp != nil && !strings.HasPrefix(cp.Pkg.Path(), "seehuhn.de/go/sfnt") {
							ext[cal.String()]++
						}
					} else if c.Common().IsInvoke() {
						ext["invoke "+c.Common().Value.Type().String()+"."+c.Common().Method.Name()]++
					}
				}
			}
		}
	}
	var ks []string
	for k := range ext {
		ks = append(ks, k)
	}
	sort.Strings(ks)
	for _, k := range ks {
		fmt.Printf("%5d %s\n", ext[k], k)
	}
	fmt.Println(kinds)
}
