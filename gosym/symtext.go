package main

// Symbolic text support: decimal formatting of symbolic integers, strconv.Atoi on strings with symbolic
// bytes, and unicode class predicates as range terms.

import (
	"regexp"
	"strconv"
	"unicode"
)

// fmtDecimal renders the integer t (signed or unsigned, any width) in decimal.  The sign and the number of
// digits are decided by branches (forks); the digits themselves are terms.
func (e *Exec) fmtDecimal(t *Term, signed bool, plus bool) Value {
	w := t.W
	var out []*Term
	mag := t
	if signed {
		neg := Cmp(OpSLt, t, BV(w, 0))
		if e.branch(neg) {
			out = append(out, BV(8, '-'))
			mag = BinBV(OpSub, BV(w, 0), t)
		} else if plus {
			out = append(out, BV(8, '+'))
		}
	} else if plus {
		out = append(out, BV(8, '+'))
	}
	// unsigned magnitude at the width of the operand (the magnitude of the most negative value fits)
	m := mag
	maxv := ^uint64(0)
	if w < 64 {
		maxv = uint64(1)<<uint(w) - 1
	}
	nd := 1
	pow := uint64(10)
	for pow <= maxv {
		if !e.branch(Cmp(OpULe, BV(w, pow), m)) {
			break
		}
		nd++
		if pow > maxv/10 {
			break
		}
		pow *= 10
	}
	div := uint64(1)
	for i := 1; i < nd; i++ {
		div *= 10
	}
	for i := 0; i < nd; i++ {
		d := BinBV(OpURem, BinBV(OpUDiv, m, BV(w, div)), BV(w, 10))
		var d8 *Term
		if w >= 8 {
			d8 = Trunc(d, 8)
		} else {
			d8 = ZExt(d, 8)
		}
		ch := BinBV(OpAdd, d8, BV(8, '0'))
		// remember that this byte is decimal digit number nd-1-i of m (a path-independent fact about the term)
		decimalDigit[ch] = decDigit{m: m, k: nd - 1 - i}
		out = append(out, ch)
		div /= 10
	}
	return mkStr(out)
}

type decDigit struct {
	m *Term
	k int
}

var decimalDigit = map[*Term]decDigit{}

// digitsOf recognises a byte sequence produced by fmtDecimal: the digits k = n-1 .. 0 of one term m.  Their
// value is m mod 10^n, which spares the solver the reconstruction sum((m / 10^k % 10) * 10^k).
func (e *Exec) digitsOf(bs []*Term) (*Term, bool) {
	n := len(bs)
	var m *Term
	for i, b := range bs {
		d, ok := decimalDigit[b]
		if !ok || d.k != n-1-i || (m != nil && d.m != m) {
			return nil, false
		}
		m = d.m
	}
	if m == nil || n > 19 {
		return nil, false
	}
	pow := uint64(1)
	for i := 0; i < n; i++ {
		pow *= 10
	}
	maxv := ^uint64(0)
	if m.W < 64 {
		maxv = uint64(1)<<uint(m.W) - 1
	}
	v := m
	if _, hi := e.bnd(e.subst(m)); hi >= pow && pow <= maxv {
		v = BinBV(OpURem, m, BV(m.W, pow))
	}
	if v.W < 64 {
		v = ZExt(v, 64)
	}
	return v, true
}

// atoiSym parses a string with symbolic bytes the way strconv.Atoi does (base 10, optional sign).
func (e *Exec) atoiSym(s Value) Value {
	if cs, ok := concStr(s); ok {
		n, err := strconv.Atoi(cs)
		if err != nil {
			return TupleV{BV(64, 0), e.newError(StrV(err.Error()))}
		}
		return TupleV{BV(64, uint64(int64(n))), errNil()}
	}
	bs := strBytes(s)
	fail := func() Value {
		return TupleV{BV(64, 0), e.newError(StrV("strconv.Atoi: parsing (symbolic): invalid syntax"))}
	}
	if len(bs) == 0 {
		return fail()
	}
	neg := false
	i := 0
	if e.branch(Eq(bs[0], BV(8, 45))) {
		neg = true
		i = 1
	} else if e.branch(Eq(bs[0], BV(8, 43))) {
		i = 1
	}
	if i >= len(bs) {
		return fail()
	}
	if len(bs)-i > 18 {
		unsup("strconv.Atoi on a symbolic string of more than 18 digits")
	}
	if v, ok := e.digitsOf(bs[i:]); ok {
		if neg {
			v = BinBV(OpSub, BV(64, 0), v)
		}
		return TupleV{v, errNil()}
	}
	// accumulate at the narrowest sufficient width (a 64-bit multiplication per digit is costly to bit-blast)
	aw := 64
	if len(bs)-i <= 9 {
		aw = 32
	}
	acc := BV(aw, 0)
	for ; i < len(bs); i++ {
		b := bs[i]
		isDigit := And(Cmp(OpULe, BV(8, '0'), b), Cmp(OpULe, b, BV(8, '9')))
		if !e.branch(isDigit) {
			return fail()
		}
		acc = BinBV(OpAdd, BinBV(OpMul, acc, BV(aw, 10)), ZExt(BinBV(OpSub, b, BV(8, '0')), aw))
	}
	val := acc
	if aw < 64 {
		val = ZExt(acc, 64)
	}
	if neg {
		val = BinBV(OpSub, BV(64, 0), val)
	}
	return TupleV{val, errNil()}
}

type runeRun struct{ lo, hi uint32 }

var classRuns = map[string][]runeRun{}

func runsOf(name string, f func(rune) bool) []runeRun {
	if r, ok := classRuns[name]; ok {
		return r
	}
	var runs []runeRun
	in := false
	var start uint32
	for c := uint32(0); c <= unicode.MaxRune+1; c++ {
		v := c <= unicode.MaxRune && f(rune(c))
		if v && !in {
			start, in = c, true
		} else if !v && in {
			runs = append(runs, runeRun{start, c - 1})
			in = false
		}
	}
	classRuns[name] = runs
	return runs
}

// runeClassTerm returns the predicate f(r) for a symbolic rune as a disjunction over the runs of the class
// that intersect the known range of r.
func (e *Exec) runeClassTerm(name string, f func(rune) bool, r *Term) *Term {
	lo, hi := e.bnd(r)
	// negative runes (sign bit set) are in no class
	res := tFalse
	for _, run := range runsOf(name, f) {
		if uint64(run.hi) < lo || uint64(run.lo) > hi {
			continue
		}
		c := And(Cmp(OpULe, BV(r.W, uint64(run.lo)), r), Cmp(OpULe, r, BV(r.W, uint64(run.hi))))
		res = Or(res, c)
	}
	return res
}

var singleClassPlus = regexp.MustCompile(`^\[(\\.|[^\]\\])*\]\+$`)

// regexpFilterSym handles re.ReplaceAllString(s, "") for a string with symbolic bytes when re is a single
// character class with a '+' quantifier: every byte that belongs to the class is removed.  Symbolic bytes are
// assumed to be ASCII (obligation); membership is decided by branches.
func (e *Exec) regexpFilterSym(re *regexp.Regexp, s Value, repl string) Value {
	if repl != "" || !singleClassPlus.MatchString(re.String()) {
		unsup("regexp with symbolic string")
	}
	var runs []runeRun
	in := false
	var start uint32
	for c := uint32(0); c <= 128; c++ {
		v := c < 128 && re.MatchString(string(rune(c)))
		if v && !in {
			start, in = c, true
		} else if !v && in {
			runs = append(runs, runeRun{start, c - 1})
			in = false
		}
	}
	var out []*Term
	for _, b := range strBytes(s) {
		if b.IsConst() {
			if b.V >= 0x80 {
				unsup("regexp with symbolic string containing non-ASCII bytes")
			}
			if !re.MatchString(string(rune(b.V))) {
				out = append(out, b)
			}
			continue
		}
		if _, hi := e.bnd(e.subst(b)); hi >= 0x80 {
			if e.branch(Cmp(OpULe, BV(8, 0x80), b)) {
				unsup("regexp with symbolic non-ASCII byte")
			}
		}
		member := tFalse
		for _, r := range runs {
			member = Or(member, And(Cmp(OpULe, BV(8, uint64(r.lo)), b), Cmp(OpULe, b, BV(8, uint64(r.hi)))))
		}
		if !e.branch(member) {
			out = append(out, b)
		}
	}
	return mkStr(out)
}
