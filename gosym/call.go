package main

import (
	"fmt"
	"go/types"
	"os"
	"strings"

	"golang.org/x/tools/go/ssa"
)

type intrinsic func(e *Exec, args []Value, st string) Value

// packages whose init functions are executed (concretely) before exploration
var stdInit = map[string]bool{"io": true, "errors": true, "bytes": true, "encoding/binary": true, "sort": true, "slices": true,
	"maps": true, "strings": true, "unicode/utf16": true, "unicode/utf8": true, "math/bits": true, "math": true, "io/fs": false, "time": true, "strconv": true}

func initAllowed(path string) bool {
	return strings.HasPrefix(path, "seehuhn.de/go/") || strings.HasPrefix(path, "golang.org/x/exp/") || stdInit[path]
}

func (c *compiler) compileCall(cc *ssa.CallCommon, in ssa.Instruction, st string) (func(fr *frame) Value, bool) {
	e := c.e
	args := make([]getter, len(cc.Args))
	for i, a := range cc.Args {
		args[i] = c.get(a)
	}
	evalArgs := func(fr *frame, extra int) []Value {
		vs := make([]Value, extra+len(args))
		for i, a := range args {
			vs[extra+i] = a(fr)
		}
		return vs
	}
	if b, ok := cc.Value.(*ssa.Builtin); ok {
		f, spec := e.builtinFn(b, cc, in, st)
		return func(fr *frame) Value { return f(evalArgs(fr, 0)) }, spec
	}
	if cc.IsInvoke() {
		recv := c.get(cc.Value)
		method := cc.Method
		return func(fr *frame) Value {
			rv := recv(fr)
			iv, ok := rv.(*IfaceV)
			if !ok {
				e.obligation(tFalse, "runtime", "nil pointer dereference (method call on nil interface)", st)
			}
			if e.spec > 0 {
				panic(specAbort{})
			}
			vs := evalArgs(fr, 1)
			vs[0] = iv.v
			return e.invoke(iv, method, vs, st)
		}, false
	}
	if fn := cc.StaticCallee(); fn != nil {
		name := fn.String()
		if fn.Origin() != nil {
			name = fn.Origin().String()
		}
		if h, ok := intrinsics[name]; ok {
			pure := pureIntrinsics[name]
			return func(fr *frame) Value {
				if e.spec > 0 && !pure {
					panic(specAbort{})
				}
				return h(e, evalArgs(fr, 0), st)
			}, pure
		}
		if strings.HasPrefix(fn.Name(), "verif") && fn.Pkg != nil && len(fn.Name()) > 5 && fn.Name()[5] >= 'A' && fn.Name()[5] <= 'Z' {
			if h, ok := verifAPI[fn.Name()]; ok {
				return func(fr *frame) Value {
					if e.spec > 0 {
						panic(specAbort{})
					}
					return h(e, evalArgs(fr, 0), st)
				}, false
			}
		}
		if fn.Name() == "init" && fn.Pkg != nil && fn.Signature.Recv() == nil {
			if !initAllowed(fn.Pkg.Pkg.Path()) {
				return func(fr *frame) Value { return nil }, false
			}
			if stdInit[fn.Pkg.Pkg.Path()] {
				// best effort: an unsupported construct inside a standard library init is tolerated
				return func(fr *frame) Value {
					defer func() {
						if r := recover(); r != nil {
							switch r.(type) {
							case pathEnd, *goPanic, specAbort:
								if !e.initPhase {
									panic(r)
								}
							}
							if e.verbose || os.Getenv("GOSYM_DEBUG") != "" {
								fmt.Fprintf(os.Stderr, "note: init of %s not completed: %v\n", fn.Pkg.Pkg.Path(), r)
							}
						}
					}()
					return e.callFn(fn, nil, nil)
				}, false
			}
		}
		if mc, isClosure := cc.Value.(*ssa.MakeClosure); isClosure {
			cl := c.get(mc)
			return func(fr *frame) Value {
				if e.spec > 0 {
					panic(specAbort{})
				}
				fv := cl(fr).(*FuncV)
				return e.callFn(fv.fn, evalArgs(fr, 0), fv.bind)
			}, false
		}
		return func(fr *frame) Value {
			if e.spec > 0 {
				panic(specAbort{})
			}
			return e.callFn(fn, evalArgs(fr, 0), nil)
		}, false
	}
	// dynamic call through a function value
	fv := c.get(cc.Value)
	return func(fr *frame) Value {
		if e.spec > 0 {
			panic(specAbort{})
		}
		f, ok := fv(fr).(*FuncV)
		if !ok {
			e.obligation(tFalse, "runtime", "call of nil function", st)
		}
		return e.callFuncV(f, evalArgs(fr, 0))
	}, false
}

func (e *Exec) callFuncV(f *FuncV, args []Value) Value {
	if f.native != nil {
		return f.native(e, args)
	}
	name := f.fn.String()
	if h, ok := intrinsics[name]; ok {
		return h(e, args, "")
	}
	return e.callFn(f.fn, args, f.bind)
}

func (e *Exec) invoke(iv *IfaceV, method *types.Func, vs []Value, st string) Value {
	if nv, ok := iv.v.(*NativeV); ok {
		return e.nativeInvoke(nv, method.Name(), vs[1:], st)
	}
	sel := e.prog.MethodSets.MethodSet(iv.t).Lookup(method.Pkg(), method.Name())
	if sel == nil {
		panic(fmt.Sprintf("invoke: no method %s on %s", method.Name(), iv.t))
	}
	m := e.prog.MethodValue(sel)
	if m == nil {
		panic(fmt.Sprintf("invoke: no method value %s on %s", method.Name(), iv.t))
	}
	if h, ok := intrinsics[m.String()]; ok {
		return h(e, vs, st)
	}
	return e.callFn(m, vs, nil)
}

func (c *compiler) compileCallDeferred(cc *ssa.CallCommon, in ssa.Instruction, st string) (func(fr *frame) func(), bool) {
	e := c.e
	args := make([]getter, len(cc.Args))
	for i, a := range cc.Args {
		args[i] = c.get(a)
	}
	if b, ok := cc.Value.(*ssa.Builtin); ok {
		f, _ := e.builtinFn(b, cc, in, st)
		return func(fr *frame) func() {
			vs := make([]Value, len(args))
			for i, a := range args {
				vs[i] = a(fr)
			}
			return func() { f(vs) }
		}, false
	}
	if cc.IsInvoke() {
		recv := c.get(cc.Value)
		method := cc.Method
		return func(fr *frame) func() {
			iv := recv(fr).(*IfaceV)
			vs := make([]Value, 1+len(args))
			vs[0] = iv.v
			for i, a := range args {
				vs[1+i] = a(fr)
			}
			return func() { e.invoke(iv, method, vs, st) }
		}, false
	}
	fv := c.get(cc.Value)
	return func(fr *frame) func() {
		f := fv(fr).(*FuncV)
		vs := make([]Value, len(args))
		for i, a := range args {
			vs[i] = a(fr)
		}
		return func() { e.callFuncV(f, vs) }
	}, false
}

// ---------- builtins ----------

func elemsOf(v Value) []Value {
	switch s := v.(type) {
	case *SliceV:
		if s.symLen != nil {
			unsup("contents of a length-only slice accessed")
		}
		if s.obj == nil {
			return nil
		}
		return s.obj.val.(*ArrayV).e[s.off : s.off+s.len]
	case StrV, *SStrV:
		bs := strBytes(s)
		r := make([]Value, len(bs))
		for i, b := range bs {
			r[i] = b
		}
		return r
	case NilV:
		return nil
	}
	panic(fmt.Sprintf("elemsOf %T", v))
}

// growCap reproduces runtime.growslice's capacity computation closely enough for aliasing
// behaviour (doubling below 256 elements, 1.25x+192 above; without size-class rounding).
func growCap(oldCap, needed int) int {
	newcap := oldCap
	doublecap := newcap + newcap
	if needed > doublecap {
		return needed
	}
	const threshold = 256
	if oldCap < threshold {
		return doublecap
	}
	for {
		newcap += (newcap + 3*threshold) >> 2
		if newcap >= needed {
			break
		}
	}
	return newcap
}

func (e *Exec) appendVals(d *SliceV, src []Value, el types.Type, st string) *SliceV {
	if len(src) == 0 {
		return d
	}
	if d.obj != nil && d.len+len(src) <= d.cap {
		e.noteWrite(d.obj, st)
		arr := d.obj.val.(*ArrayV)
		for i, v := range src {
			arr.e[d.off+d.len+i] = copyVal(v)
		}
		return &SliceV{obj: d.obj, off: d.off, len: d.len + len(src), cap: d.cap}
	}
	ncap := growCap(d.cap, d.len+len(src))
	ncap = roundupCap(ncap, el)
	arr := &ArrayV{e: make([]Value, ncap)}
	z := zeroOf(el)
	for i := range arr.e {
		switch {
		case i < d.len:
			arr.e[i] = copyVal(d.at(i))
		case i < d.len+len(src):
			arr.e[i] = copyVal(src[i-d.len])
		default:
			arr.e[i] = copyVal(z)
		}
	}
	e.noteAlloc(int64(ncap), st)
	return &SliceV{obj: e.newObj(arr, st), len: d.len + len(src), cap: ncap}
}

var sizeClasses = []int{0, 8, 16, 24, 32, 48, 64, 80, 96, 112, 128, 144, 160, 176, 192, 208, 224, 240, 256, 288, 320, 352, 384, 416, 448, 480, 512, 576, 640, 704, 768, 896, 1024, 1152, 1280, 1408, 1536, 1792, 2048, 2304, 2688, 3072, 3200, 3456, 4096, 4864, 5376, 6144, 6528, 6784, 6912, 8192, 9472, 9728, 10240, 10880, 12288, 13568, 14336, 16384, 18432, 19072, 20480, 21760, 24576, 27264, 28672, 32768}

var stdSizes = types.SizesFor("gc", "amd64")

func roundupCap(ncap int, el types.Type) int {
	sz := int(stdSizes.Sizeof(el))
	if sz == 0 {
		return ncap
	}
	bytes := ncap * sz
	for _, c := range sizeClasses {
		if c >= bytes {
			return c / sz
		}
	}
	// large: round up to page size
	const page = 8192
	bytes = (bytes + page - 1) / page * page
	return bytes / sz
}

func (e *Exec) builtinFn(b *ssa.Builtin, cc *ssa.CallCommon, in ssa.Instruction, st string) (func(args []Value) Value, bool) {
	switch b.Name() {
	case "len":
		return func(args []Value) Value {
			switch s := args[0].(type) {
			case *SliceV:
				if s.symLen != nil {
					return s.symLen
				}
				return BV(64, uint64(s.len))
			case StrV, *SStrV:
				return BV(64, uint64(strLen(s)))
			case *MapV:
				return BV(64, uint64(s.live()))
			case NilV:
				return BV(64, 0)
			case *Ptr:
				return BV(64, uint64(len(navigate(s.obj.val, s.path).(*ArrayV).e)))
			case *ArrayV:
				return BV(64, uint64(len(s.e)))
			}
			panic(fmt.Sprintf("len of %T", args[0]))
		}, true
	case "cap":
		return func(args []Value) Value {
			switch s := args[0].(type) {
			case *SliceV:
				return BV(64, uint64(s.cap))
			case NilV:
				return BV(64, 0)
			case *Ptr:
				return BV(64, uint64(len(navigate(s.obj.val, s.path).(*ArrayV).e)))
			}
			panic(fmt.Sprintf("cap of %T", args[0]))
		}, true
	case "append":
		var el types.Type
		if v, ok := in.(ssa.Value); ok {
			el = v.Type().Underlying().(*types.Slice).Elem()
		} else {
			el = cc.Args[0].Type().Underlying().(*types.Slice).Elem()
		}
		return func(args []Value) Value {
			d, ok := args[0].(*SliceV)
			if !ok {
				d = &SliceV{}
			}
			return e.appendVals(d, elemsOf(args[1]), el, st)
		}, false
	case "copy":
		return func(args []Value) Value {
			d, _ := args[0].(*SliceV)
			if d == nil || d.obj == nil {
				return BV(64, 0)
			}
			src := elemsOf(args[1])
			n := d.len
			if len(src) < n {
				n = len(src)
			}
			if n == 0 {
				return BV(64, 0)
			}
			e.noteWrite(d.obj, st)
			tmp := make([]Value, n)
			for i := 0; i < n; i++ {
				tmp[i] = copyVal(src[i])
			}
			arr := d.obj.val.(*ArrayV)
			for i := 0; i < n; i++ {
				arr.e[d.off+i] = tmp[i]
			}
			return BV(64, uint64(n))
		}, false
	case "delete":
		return func(args []Value) Value {
			if m, ok := args[0].(*MapV); ok {
				e.mapDelete(m, args[1], st)
			}
			return nil
		}, false
	case "clear":
		var elemT types.Type
		if sl, ok := cc.Args[0].Type().Underlying().(*types.Slice); ok {
			elemT = sl.Elem()
		}
		return func(args []Value) Value {
			switch m := args[0].(type) {
			case *MapV:
				e.noteMapWrite(m, st)
				for _, en := range m.ent {
					en.deleted = true
				}
			case *SliceV:
				if m.obj == nil || m.len == 0 {
					return nil
				}
				e.noteWrite(m.obj, st)
				arr := m.obj.val.(*ArrayV)
				z := zeroOf(elemT)
				for i := 0; i < m.len; i++ {
					arr.e[m.off+i] = copyVal(z)
				}
			}
			return nil
		}, false
	case "min", "max":
		isMin := b.Name() == "min"
		signed := isSigned(cc.Args[0].Type())
		return func(args []Value) Value {
			r := args[0]
			for _, a := range args[1:] {
				switch x := r.(type) {
				case *Term:
					y := a.(*Term)
					op := OpULt
					if signed {
						op = OpSLt
					}
					lt := Cmp(op, y, x)
					if isMin {
						r = Ite(lt, y, x)
					} else {
						r = Ite(lt, x, y)
					}
				case *FloatV:
					y := a.(*FloatV)
					lt := fCmp(OpSLt, y, x)
					if isMin {
						r = fIte(lt, y, x)
					} else {
						r = fIte(lt, x, y)
					}
				default:
					unsup("min/max on %T", r)
				}
			}
			return r
		}, true
	case "close":
		return func(args []Value) Value { e.chanClose(args[0], st); return nil }, false
	case "recover":
		return func(args []Value) Value {
			if e.panicking == nil {
				return NilV{}
			}
			v := e.panicking.val
			e.panicking = nil
			return v
		}, false
	case "print", "println":
		return func(args []Value) Value { return nil }, false
	case "ssa:wrapnilchk":
		return func(args []Value) Value {
			if isNil(args[0]) {
				e.obligation(tFalse, "runtime", "nil pointer dereference (value method on nil pointer)", st)
			}
			return args[0]
		}, true
	}
	return func(args []Value) Value {
		unsup("builtin %s", b.Name())
		return nil
	}, false
}
