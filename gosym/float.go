package main

import (
	"fmt"
	"math"
	"math/bits"
)

// FloatV is a float64 (or float32 widened) value.  Either concrete, or an exact dyadic rational
// m·2^e with m a signed 64-bit term and |m| < 2^nb (so that every result we produce is the exact
// IEEE result as long as nb <= 53, which is checked, not assumed).
type FloatV struct {
	sym bool
	c   float64
	m   *Term
	e   int
	mag uint64 // |m| <= mag
}

func satAdd(a, b uint64) uint64 {
	if a+b < a || a+b > 1<<63 {
		return 1 << 63
	}
	return a + b
}

func satMul(a, b uint64) uint64 {
	h, l := bits.Mul64(a, b)
	if h != 0 || l > 1<<63 {
		return 1 << 63
	}
	return l
}

func satShl(a uint64, k int) uint64 {
	if k <= 0 {
		return a
	}
	if k >= 63 || bits.Len64(a)+k > 63 {
		if a == 0 {
			return 0
		}
		return 1 << 63
	}
	return a << uint(k)
}

func magOfBits(nb int) uint64 {
	if nb >= 63 {
		return 1 << 63
	}
	return uint64(1) << uint(nb)
}

type unsupported struct{ msg string }

func unsup(format string, a ...interface{}) {
	panic(unsupported{fmt.Sprintf(format, a...)})
}

func (f *FloatV) String() string {
	if !f.sym {
		return fmt.Sprint(f.c)
	}
	return fmt.Sprintf("dyad(%s * 2^%d, |m|<=%d)", f.m, f.e, f.mag)
}

func concF(c float64) *FloatV { return &FloatV{c: c} }

// dyadOf converts a concrete finite float into (m, e) with c == m * 2^e and m odd or zero.
func dyadOf(c float64) (int64, int, bool) {
	if math.IsInf(c, 0) || math.IsNaN(c) {
		return 0, 0, false
	}
	if c == 0 {
		return 0, 0, true
	}
	fr, ex := math.Frexp(c) // c = fr * 2^ex, 0.5 <= |fr| < 1
	m := int64(fr * (1 << 53))
	e := ex - 53
	for m&1 == 0 {
		m >>= 1
		e++
	}
	return m, e, true
}

func bitlenI(m int64) int {
	if m < 0 {
		m = -m
	}
	return bits.Len64(uint64(m))
}

func absI(m int64) uint64 {
	if m < 0 {
		return uint64(-m)
	}
	return uint64(m)
}

func (f *FloatV) dyad() (*Term, int, uint64) {
	if f.sym {
		return f.m, f.e, f.mag
	}
	m, e, ok := dyadOf(f.c)
	if !ok {
		unsup("non-finite float in symbolic arithmetic")
	}
	return BV(64, uint64(m)), e, absI(m)
}

func mkDyad(m *Term, e int, mag uint64) *FloatV {
	if m.IsConst() {
		v := sext(m.V, 64)
		return concF(math.Ldexp(float64(v), e))
	}
	if mag > 1<<53 {
		unsup("dyadic float needs %d mantissa bits (>53): result would not be exact", bits.Len64(mag))
	}
	return &FloatV{sym: true, m: m, e: e, mag: mag}
}

func shlM(m *Term, k int) *Term {
	if k == 0 {
		return m
	}
	return BinBV(OpShl, m, BV(64, uint64(k)))
}

// align brings two floats to a common exponent.
// align brings two floats to a common exponent; returns the magnitudes of both aligned mantissas.
func align(a, b *FloatV) (ma, mb *Term, e int, g1, g2 uint64) {
	m1, e1, n1 := a.dyad()
	m2, e2, n2 := b.dyad()
	e = e1
	if e2 < e {
		e = e2
	}
	if n1 == 0 {
		e = e2
	} else if n2 == 0 {
		e = e1
	}
	if n1 != 0 && e1-e > 200 || n2 != 0 && e2-e > 200 {
		unsup("dyadic exponents too far apart")
	}
	g1, g2 = satShl(n1, e1-e), satShl(n2, e2-e)
	if g1 >= 1<<62 || g2 >= 1<<62 {
		unsup("dyadic alignment overflows 64 bits")
	}
	if n1 == 0 {
		ma = BV(64, 0)
	} else {
		ma = shlM(m1, e1-e)
	}
	if n2 == 0 {
		mb = BV(64, 0)
	} else {
		mb = shlM(m2, e2-e)
	}
	return
}

func fAdd(a, b *FloatV) *FloatV {
	if !a.sym && !b.sym {
		return concF(a.c + b.c)
	}
	ma, mb, e, g1, g2 := align(a, b)
	return mkDyad(BinBV(OpAdd, ma, mb), e, satAdd(g1, g2))
}

func fSub(a, b *FloatV) *FloatV {
	if !a.sym && !b.sym {
		return concF(a.c - b.c)
	}
	ma, mb, e, g1, g2 := align(a, b)
	return mkDyad(BinBV(OpSub, ma, mb), e, satAdd(g1, g2))
}

func fNeg(a *FloatV) *FloatV {
	if !a.sym {
		return concF(-a.c)
	}
	return mkDyad(BinBV(OpSub, BV(64, 0), a.m), a.e, a.mag)
}

func fMul(a, b *FloatV) *FloatV {
	if !a.sym && !b.sym {
		return concF(a.c * b.c)
	}
	if !a.sym && a.c == 0 || !b.sym && b.c == 0 {
		return concF(0) // sign of zero ignored
	}
	m1, e1, n1 := a.dyad()
	m2, e2, n2 := b.dyad()
	if satMul(n1, n2) >= 1<<62 {
		unsup("dyadic product overflows 64 bits")
	}
	return mkDyad(BinBV(OpMul, m1, m2), e1+e2, satMul(n1, n2))
}

func fDiv(a, b *FloatV) *FloatV {
	if !a.sym && !b.sym {
		return concF(a.c / b.c)
	}
	if !b.sym {
		m, e, ok := dyadOf(b.c)
		if ok && (m == 1 || m == -1) {
			// division by ±2^e is exact
			return fMul(a, concF(math.Ldexp(float64(m), -e)))
		}
	}
	unsup("float division with symbolic operand and non-power-of-two divisor")
	return nil
}

func fCmp(op Op, a, b *FloatV) *Term {
	// op in OpSLt, OpSLe, OpEq
	if !a.sym && !b.sym {
		switch op {
		case OpSLt:
			return Bool(a.c < b.c)
		case OpSLe:
			return Bool(a.c <= b.c)
		case OpEq:
			return Bool(a.c == b.c)
		}
	}
	// comparisons against ±Inf
	for i, x := range []*FloatV{a, b} {
		if !x.sym && math.IsInf(x.c, 0) {
			pos := math.IsInf(x.c, 1)
			if op == OpEq {
				return tFalse
			}
			// i==0: inf OP finite ; i==1: finite OP inf
			if i == 0 {
				return Bool(!pos)
			}
			return Bool(pos)
		}
		if !x.sym && math.IsNaN(x.c) {
			return tFalse
		}
	}
	ma, mb, _, _, _ := align(a, b)
	if op == OpEq {
		return Eq(ma, mb)
	}
	return Cmp(op, ma, mb)
}

// fToInt converts to a 64-bit signed integer term by truncation toward zero.
func fToInt(a *FloatV) (*Term, int) {
	if !a.sym {
		return BV(64, uint64(int64(a.c))), bitlenI(int64(a.c))
	}
	anb := bits.Len64(a.mag)
	if a.e >= 0 {
		if anb+a.e > 62 {
			unsup("float to int conversion overflows")
		}
		return shlM(a.m, a.e), anb + a.e
	}
	k := -a.e
	if k >= 63 {
		return BV(64, 0), 0
	}
	neg := Cmp(OpSLt, a.m, BV(64, 0))
	abs := Ite(neg, BinBV(OpSub, BV(64, 0), a.m), a.m)
	q := BinBV(OpLShr, abs, BV(64, uint64(k)))
	nb := anb - k
	if nb < 0 {
		nb = 0
	}
	return Ite(neg, BinBV(OpSub, BV(64, 0), q), q), nb
}

func fFromInt(t *Term, signed bool) *FloatV {
	var m *Term
	nb := t.W
	if signed {
		m = SExt(t, 64)
		if t.hi <= mask(t.W-1) {
			nb = bits.Len64(t.hi)
		} else if sb := signedBits(t, 0); sb < nb {
			nb = sb
		}
	} else {
		m = ZExt(t, 64)
		nb = bits.Len64(t.hi)
		if nb > 62 && !t.IsConst() {
			unsup("uint64 to float conversion of unbounded value")
		}
	}
	if m.IsConst() {
		if signed {
			return concF(float64(sext(m.V, 64)))
		}
		return concF(float64(m.V))
	}
	return mkDyad(m, 0, magOfBits(nb))
}

// rounding functions: mode 0 floor, 1 ceil, 2 round-half-away, 3 trunc
func fRoundMode(a *FloatV, mode int) *FloatV {
	if !a.sym {
		switch mode {
		case 0:
			return concF(math.Floor(a.c))
		case 1:
			return concF(math.Ceil(a.c))
		case 2:
			return concF(math.Round(a.c))
		default:
			return concF(math.Trunc(a.c))
		}
	}
	if a.e >= 0 {
		return a
	}
	k := uint64(-a.e)
	if k >= 62 {
		unsup("rounding of tiny dyadic")
	}
	kk := BV(64, k)
	mg := a.mag>>k + 1
	zero := BV(64, 0)
	switch mode {
	case 0:
		return mkDyad(BinBV(OpAShr, a.m, kk), 0, mg)
	case 1:
		// ceil(x) = -floor(-x)
		n := BinBV(OpSub, zero, a.m)
		return mkDyad(BinBV(OpSub, zero, BinBV(OpAShr, n, kk)), 0, mg)
	case 2:
		neg := Cmp(OpSLt, a.m, zero)
		abs := Ite(neg, BinBV(OpSub, zero, a.m), a.m)
		r := BinBV(OpLShr, BinBV(OpAdd, abs, BV(64, uint64(1)<<(k-1))), kk)
		return mkDyad(Ite(neg, BinBV(OpSub, zero, r), r), 0, mg)
	default:
		t, _ := fToInt(a)
		return mkDyad(t, 0, mg)
	}
}

func fAbs(a *FloatV) *FloatV {
	if !a.sym {
		return concF(math.Abs(a.c))
	}
	neg := Cmp(OpSLt, a.m, BV(64, 0))
	return mkDyad(Ite(neg, BinBV(OpSub, BV(64, 0), a.m), a.m), a.e, a.mag)
}

func fIte(c *Term, a, b *FloatV) *FloatV {
	if c.IsConst() {
		if c.V != 0 {
			return a
		}
		return b
	}
	if !a.sym && !b.sym && (a.c == b.c || math.IsNaN(a.c) && math.IsNaN(b.c)) {
		return a
	}
	ma, mb, e, g1, g2 := align(a, b)
	if g2 > g1 {
		g1 = g2
	}
	return mkDyad(Ite(c, ma, mb), e, g1)
}

// toFloat32 rounds to float32 precision; exact only if the mantissa fits 24 bits.
func fToFloat32(a *FloatV) *FloatV {
	if !a.sym {
		return concF(float64(float32(a.c)))
	}
	if a.mag > 1<<24 {
		unsup("float32 rounding of symbolic value with >24 mantissa bits")
	}
	return a
}

// signedBits returns n such that the signed value of t lies in (-2^n, 2^n).
func signedBits(t *Term, depth int) int {
	if depth > 30 {
		return t.W
	}
	if t.hi <= mask(t.W-1) && t.W > 0 {
		return bits.Len64(t.hi)
	}
	r := t.W
	switch t.Op {
	case OpConst:
		r = bitlenI(sext(t.V, t.W))
	case OpSExt:
		r = signedBits(t.A, depth+1)
	case OpZExt:
		r = t.A.W
	case OpAdd, OpSub:
		a, b := signedBits(t.A, depth+1), signedBits(t.B, depth+1)
		if b > a {
			a = b
		}
		r = a + 1
	case OpMul:
		r = signedBits(t.A, depth+1) + signedBits(t.B, depth+1)
	case OpIte:
		a, b := signedBits(t.B, depth+1), signedBits(t.C, depth+1)
		if b > a {
			a = b
		}
		r = a
	case OpAShr:
		if t.B.IsConst() {
			r = signedBits(t.A, depth+1) - int(t.B.V)
			if r < 1 {
				r = 1
			}
		}
	case OpConcat:
		// sign carried by the top part
		r = signedBits(t.A, depth+1) + t.B.W
	case OpExtract:
		// low bits of a value that already fits keep the value
		if t.V == 0 {
			if sb := signedBits(t.A, depth+1); sb < t.W {
				r = sb
			}
		}
	case OpBAnd, OpBOr, OpBXor:
		a, b := signedBits(t.A, depth+1), signedBits(t.B, depth+1)
		if b > a {
			a = b
		}
		r = a
	}
	if r > t.W {
		r = t.W
	}
	return r
}
