package main

import (
	"bufio"
	"fmt"
	"io"
	"os"
	"os/exec"
	"strings"
	"time"
)

// Solver drives one long-lived SMT solver process over a pipe.
type Solver struct {
	name     string
	cmd      *exec.Cmd
	in       *bufio.Writer
	inRaw    io.WriteCloser
	out      *bufio.Reader
	depth    int
	Queries  int
	Sat      int
	Unsat    int
	Unknown  int
	Errors   int
	Time     time.Duration
	MaxQ     time.Duration
	log      *os.File
	gen      int // generation: terms defined in an older generation must be re-sent
	defGen   map[*Term]int
	SlowHook func(d time.Duration)
	GetTime  time.Duration
	Gets     int
}

func NewSolver(name string, timeoutMs int, logPath string) *Solver {
	var cmd *exec.Cmd
	switch name {
	case "z3", "z3-new":
		cmd = exec.Command(name, "-in")
	case "cvc5":
		cmd = exec.Command("cvc5", "--incremental", "--lang=smt2", "--produce-models", fmt.Sprintf("--tlimit-per=%d", timeoutMs))
	default:
		panic("unknown solver " + name)
	}
	in, _ := cmd.StdinPipe()
	outp, _ := cmd.StdoutPipe()
	cmd.Stderr = cmd.Stdout
	if err := cmd.Start(); err != nil {
		panic(err)
	}
	s := &Solver{name: name, cmd: cmd, inRaw: in, in: bufio.NewWriterSize(in, 1<<16), out: bufio.NewReader(outp), defGen: map[*Term]int{}, gen: 1}
	if logPath != "" {
		s.log, _ = os.Create(logPath)
	}
	s.send("(set-option :global-declarations true)")
	if name != "cvc5" {
		s.send(fmt.Sprintf("(set-option :timeout %d)", timeoutMs))
	} else {
		s.send("(set-logic ALL)")
	}
	return s
}

func (s *Solver) send(line string) {
	s.in.WriteString(line)
	s.in.WriteByte('\n')
	if s.log != nil {
		s.log.WriteString(line + "\n")
	}
}

// define makes sure t (and its sub-terms) are known to the solver by name.
func (s *Solver) define(t *Term) {
	if t.Op == OpConst {
		return
	}
	if s.defGen[t] == s.gen {
		return
	}
	// iterative post-order to avoid deep recursion
	type fr struct {
		t *Term
		i int
	}
	st := []fr{{t, 0}}
	for len(st) > 0 {
		top := &st[len(st)-1]
		x := top.t
		if x.Op == OpConst || s.defGen[x] == s.gen {
			st = st[:len(st)-1]
			continue
		}
		var kids [3]*Term
		kids[0], kids[1], kids[2] = x.A, x.B, x.C
		if top.i < 3 {
			k := kids[top.i]
			top.i++
			if k != nil && k.Op != OpConst && s.defGen[k] != s.gen {
				st = append(st, fr{k, 0})
			}
			continue
		}
		if x.Op == OpVar {
			s.send(fmt.Sprintf("(declare-const %s %s)", x.Name, sortStr(x.W)))
		} else {
			s.send(fmt.Sprintf("(define-fun %s () %s %s)", x.ref(), sortStr(x.W), x.body()))
		}
		s.defGen[x] = s.gen
		st = st[:len(st)-1]
	}
}

func (s *Solver) Push() { s.send("(push 1)"); s.depth++ }
func (s *Solver) Pop()  { s.send("(pop 1)"); s.depth-- }
func (s *Solver) PopTo(d int) {
	for s.depth > d {
		s.Pop()
	}
}

func (s *Solver) Assert(t *Term) {
	s.define(t)
	s.send("(assert " + t.ref() + ")")
}

func (s *Solver) readLine() string {
	s.in.Flush()
	line, err := s.out.ReadString('\n')
	if err != nil {
		panic(fmt.Sprintf("solver died: %v", err))
	}
	return strings.TrimSpace(line)
}

// Check returns "sat", "unsat" or "unknown".
func (s *Solver) Check() string {
	t0 := time.Now()
	s.send("(check-sat)")
	line := s.readLine()
	d := time.Since(t0)
	s.Time += d
	if d > s.MaxQ {
		s.MaxQ = d
	}
	if s.SlowHook != nil && d > 30*time.Millisecond {
		s.SlowHook(d)
	}
	s.Queries++
	switch line {
	case "sat":
		s.Sat++
	case "unsat":
		s.Unsat++
	default:
		if strings.Contains(line, "error") {
			s.Errors++
			fmt.Fprintln(os.Stderr, "SOLVER ERROR:", line)
		}
		s.Unknown++
		line = "unknown"
	}
	return line
}

// CheckWith checks pc ∧ t without changing the assertion stack.
func (s *Solver) CheckWith(t *Term) string {
	s.Push()
	s.Assert(t)
	r := s.Check()
	s.Pop()
	return r
}

func parseVal(tok string) (uint64, bool) {
	tok = strings.TrimSpace(tok)
	switch {
	case tok == "true":
		return 1, true
	case tok == "false":
		return 0, true
	case strings.HasPrefix(tok, "#x"):
		var v uint64
		fmt.Sscanf(tok[2:], "%x", &v)
		return v, true
	case strings.HasPrefix(tok, "#b"):
		var v uint64
		for _, c := range tok[2:] {
			v = v<<1 | uint64(c-'0')
		}
		return v, true
	case strings.HasPrefix(tok, "(_ bv"):
		var v uint64
		fmt.Sscanf(tok[5:], "%d", &v)
		return v, true
	}
	return 0, false
}

// GetValues returns the model values of the given terms (after a sat answer).
func (s *Solver) GetValues(ts []*Term) []uint64 {
	res := make([]uint64, len(ts))
	tg := time.Now()
	defer func() { s.GetTime += time.Since(tg); s.Gets++ }()
	const chunk = 200
	for base := 0; base < len(ts); base += chunk {
		end := base + chunk
		if end > len(ts) {
			end = len(ts)
		}
		var sb strings.Builder
		sb.WriteString("(get-value (")
		for _, t := range ts[base:end] {
			s.define(t)
			sb.WriteString(t.ref())
			sb.WriteByte(' ')
		}
		sb.WriteString("))")
		s.send(sb.String())
		var resp strings.Builder
		depth := 0
		started := false
		for {
			line := s.readLine()
			resp.WriteString(line)
			resp.WriteByte(' ')
			for _, c := range line {
				if c == '(' {
					depth++
					started = true
				} else if c == ')' {
					depth--
				}
			}
			if strings.Contains(line, "error") && !started {
				panic("solver get-value error: " + line)
			}
			if started && depth <= 0 {
				break
			}
		}
		// parse "((name val) (name val) ...)"
		r := strings.TrimSpace(resp.String())
		r = strings.TrimPrefix(r, "(")
		r = strings.TrimSuffix(r, ")")
		i := 0
		idx := base
		for i < len(r) {
			if r[i] != '(' {
				i++
				continue
			}
			// find matching paren
			d, j := 0, i
			for ; j < len(r); j++ {
				if r[j] == '(' {
					d++
				} else if r[j] == ')' {
					d--
					if d == 0 {
						break
					}
				}
			}
			pair := r[i+1 : j]
			sp := strings.IndexAny(pair, " \t")
			val := strings.TrimSpace(pair[sp+1:])
			v, ok := parseVal(val)
			if !ok {
				panic("cannot parse model value: " + pair)
			}
			res[idx] = v
			idx++
			i = j + 1
		}
		if idx != end {
			panic(fmt.Sprintf("get-value: expected %d values, got %d: %s", end-base, idx-base, r))
		}
	}
	return res
}

func (s *Solver) GetValue(t *Term) uint64 { return s.GetValues([]*Term{t})[0] }

func (s *Solver) Close() {
	s.send("(exit)")
	s.in.Flush()
	s.inRaw.Close()
	s.cmd.Wait()
	if s.log != nil {
		s.log.Close()
	}
}
