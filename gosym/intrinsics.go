package main

import (
	"fmt"
	"go/types"
	"math"
	"regexp"
	"strconv"
	"strings"
	"unicode"

	"golang.org/x/text/language"
)

var intrinsics = map[string]intrinsic{}
var pureIntrinsics = map[string]bool{}

func concStr(v Value) (string, bool) {
	if s, ok := v.(StrV); ok {
		return string(s), true
	}
	if s, ok := v.(*SStrV); ok {
		all := true
		for _, b := range s.b {
			if !b.IsConst() {
				all = false
			}
		}
		if all {
			bs := make([]byte, len(s.b))
			for i, b := range s.b {
				bs[i] = byte(b.V)
			}
			return string(bs), true
		}
	}
	return "", false
}

func mustStr(v Value, what string) string {
	s, ok := concStr(v)
	if !ok {
		unsup("%s with symbolic string", what)
	}
	return s
}

func (e *Exec) bytesToSlice(bs []*Term, st string) *SliceV {
	arr := &ArrayV{e: make([]Value, len(bs))}
	for i, b := range bs {
		arr.e[i] = b
	}
	return &SliceV{obj: e.newObj(arr, st), len: len(bs), cap: len(bs)}
}

func sliceBytes(v Value) []*Term {
	s, ok := v.(*SliceV)
	if !ok || s.obj == nil {
		return nil
	}
	r := make([]*Term, s.len)
	for i := range r {
		r[i] = s.at(i).(*Term)
	}
	return r
}

func errNil() Value { return NilV{} }

// opaque error value
var opaqueErrType types.Type

func (e *Exec) newError(msg Value) Value {
	o := e.newObj(&StructV{f: []Value{msg}}, "error")
	return &IfaceV{t: errorStringPtrType(e), v: &Ptr{obj: o}}
}

func errorStringPtrType(e *Exec) types.Type {
	if opaqueErrType != nil {
		return opaqueErrType
	}
	p := e.prog.ImportedPackage("errors")
	if p == nil {
		panic("package errors not loaded")
	}
	opaqueErrType = types.NewPointer(p.Pkg.Scope().Lookup("errorString").Type())
	return opaqueErrType
}

// ---------- formatting ----------

func (e *Exec) fmtArg(v Value, verb byte, flags string) (Value, bool) {
	// returns a string Value
	iv, isI := v.(*IfaceV)
	if !isI {
		if isNil(v) {
			return StrV("<nil>"), true
		}
		return StrV("?"), false
	}
	// error / Stringer
	if verb == 'v' || verb == 's' || verb == 'w' || verb == 'q' {
		for _, mname := range []string{"Error", "String"} {
			ms := e.prog.MethodSets.MethodSet(iv.t)
			for i := 0; i < ms.Len(); i++ {
				sel := ms.At(i)
				if sel.Obj().Name() == mname {
					sig := sel.Obj().Type().(*types.Signature)
					if sig.Params().Len() == 0 && sig.Results().Len() == 1 && isString(sig.Results().At(0).Type()) {
						if m := e.prog.MethodValue(sel); m != nil {
							var r Value
							func() {
								defer func() {
									if rr := recover(); rr != nil {
										if _, ok := rr.(unsupported); ok {
											r = StrV("<" + mname + " unsupported>")
											return
										}
										panic(rr)
									}
								}()
								if h, ok := intrinsics[m.String()]; ok {
									r = h(e, []Value{iv.v}, "")
								} else {
									r = e.callFn(m, []Value{iv.v}, nil)
								}
							}()
							if verb == 'q' {
								if s, ok := concStr(r); ok {
									return StrV(strconv.Quote(s)), true
								}
							}
							return r, true
						}
					}
				}
			}
		}
	}
	switch x := iv.v.(type) {
	case StrV, *SStrV:
		if verb == 'q' {
			if s, ok := concStr(x); ok {
				return StrV(strconv.Quote(s)), true
			}
			return mkStr(append(append([]*Term{BV(8, '"')}, strBytes(x)...), BV(8, '"'))), true
		}
		if verb == 'x' || verb == 'X' {
			if s, ok := concStr(x); ok {
				return StrV(fmt.Sprintf("%"+flags+string(verb), s)), true
			}
			return StrV("?"), false
		}
		return x, true
	case *Term:
		if !x.IsConst() {
			if x.W > 0 && (verb == 'd' || verb == 'v') && (flags == "" || flags == "+") && e.spec == 0 {
				return e.fmtDecimal(x, isSigned(iv.t), flags == "+"), true
			}
			return StrV("?"), false
		}
		var gv interface{}
		if x.W == 0 {
			gv = x.V != 0
		} else if isSigned(iv.t) {
			gv = sext(x.V, x.W)
		} else {
			gv = x.V
		}
		if verb == 'c' || verb == 'q' || verb == 'U' {
			gv = rune(sext(x.V, x.W))
		}
		if verb == 's' {
			verb = 'v'
		}
		return StrV(fmt.Sprintf("%"+flags+string(verb), gv)), true
	case *FloatV:
		if x.sym {
			return StrV("?"), false
		}
		return StrV(fmt.Sprintf("%"+flags+string(verb), x.c)), true
	case *SliceV:
		// []byte or []int with concrete contents
		var parts []string
		allc := true
		for i := 0; i < x.len; i++ {
			t, ok := x.at(i).(*Term)
			if !ok || !t.IsConst() {
				allc = false
				break
			}
			parts = append(parts, fmt.Sprint(t.V))
		}
		if allc {
			return StrV("[" + strings.Join(parts, " ") + "]"), true
		}
		return StrV("[?]"), false
	case NilV:
		return StrV("<nil>"), true
	case *NativeV:
		return StrV(fmt.Sprintf("%"+flags+string(verb), x.v)), true
	}
	return StrV("{" + iv.t.String() + "}"), false
}

// sprintf formats with symbolic-string support for %s/%v; ok=false if some argument could not be rendered exactly.
func (e *Exec) sprintf(format string, args []Value) (Value, bool) {
	var out []*Term
	emit := func(s Value) { out = append(out, strBytes(s)...) }
	exact := true
	ai := 0
	for i := 0; i < len(format); i++ {
		ch := format[i]
		if ch != '%' {
			out = append(out, BV(8, uint64(ch)))
			continue
		}
		i++
		if i >= len(format) {
			break
		}
		if format[i] == '%' {
			out = append(out, BV(8, '%'))
			continue
		}
		j := i
		for j < len(format) && strings.IndexByte("+-# 0123456789.", format[j]) >= 0 {
			j++
		}
		if j >= len(format) {
			break
		}
		flags := format[i:j]
		verb := format[j]
		i = j
		if ai >= len(args) {
			emit(StrV("%!" + string(verb) + "(MISSING)"))
			continue
		}
		s, ok := e.fmtArg(args[ai], verb, flags)
		ai++
		if !ok {
			exact = false
		}
		emit(s)
	}
	return mkStr(out), exact
}

func (e *Exec) sprint(args []Value) (Value, bool) {
	var out []*Term
	exact := true
	for _, a := range args {
		s, ok := e.fmtArg(a, 'v', "")
		if !ok {
			exact = false
		}
		out = append(out, strBytes(s)...)
	}
	return mkStr(out), exact
}

func variadic(v Value) []Value {
	s, ok := v.(*SliceV)
	if !ok || s.obj == nil {
		return nil
	}
	r := make([]Value, s.len)
	for i := range r {
		r[i] = s.at(i)
	}
	return r
}

// ---------- math on floats ----------

func f1(name string, conc func(float64) float64, sym func(*FloatV) *FloatV) {
	intrinsics["math."+name] = func(e *Exec, args []Value, st string) Value {
		a := args[0].(*FloatV)
		if !a.sym {
			return concF(conc(a.c))
		}
		if sym == nil {
			unsup("math.%s of symbolic float", name)
		}
		return sym(a)
	}
	pureIntrinsics["math."+name] = true
}

func init() {
	f1("Abs", math.Abs, fAbs)
	f1("Floor", math.Floor, func(a *FloatV) *FloatV { return fRoundMode(a, 0) })
	f1("Ceil", math.Ceil, func(a *FloatV) *FloatV { return fRoundMode(a, 1) })
	f1("Round", math.Round, func(a *FloatV) *FloatV { return fRoundMode(a, 2) })
	f1("Trunc", math.Trunc, func(a *FloatV) *FloatV { return fRoundMode(a, 3) })
	f1("Sin", math.Sin, nil)
	f1("Cos", math.Cos, nil)
	f1("Sqrt", math.Sqrt, nil)
	f1("Log10", math.Log10, nil)
	intrinsics["math.Atan2"] = func(e *Exec, args []Value, st string) Value {
		a, b := args[0].(*FloatV), args[1].(*FloatV)
		if a.sym || b.sym {
			unsup("math.Atan2 of symbolic float")
		}
		return concF(math.Atan2(a.c, b.c))
	}
	intrinsics["math.Mod"] = func(e *Exec, args []Value, st string) Value {
		a, b := args[0].(*FloatV), args[1].(*FloatV)
		if a.sym || b.sym {
			unsup("math.Mod of symbolic float")
		}
		return concF(math.Mod(a.c, b.c))
	}
	intrinsics["math.Pow10"] = func(e *Exec, args []Value, st string) Value {
		n := args[0].(*Term)
		if !n.IsConst() {
			unsup("math.Pow10 of symbolic int")
		}
		return concF(math.Pow10(int(sext(n.V, 64))))
	}
	intrinsics["math.Inf"] = func(e *Exec, args []Value, st string) Value {
		n := args[0].(*Term)
		if !n.IsConst() {
			unsup("math.Inf of symbolic sign")
		}
		return concF(math.Inf(int(sext(n.V, 64))))
	}
	pureIntrinsics["math.Inf"] = true
	intrinsics["math.IsNaN"] = func(e *Exec, args []Value, st string) Value {
		a := args[0].(*FloatV)
		if a.sym {
			return tFalse
		}
		return Bool(math.IsNaN(a.c))
	}
	pureIntrinsics["math.IsNaN"] = true
	intrinsics["math.IsInf"] = func(e *Exec, args []Value, st string) Value {
		a := args[0].(*FloatV)
		if a.sym {
			return tFalse
		}
		s := args[1].(*Term)
		if !s.IsConst() {
			unsup("math.IsInf symbolic sign")
		}
		return Bool(math.IsInf(a.c, int(sext(s.V, 64))))
	}
	pureIntrinsics["math.IsInf"] = true
	intrinsics["math.Float64bits"] = func(e *Exec, args []Value, st string) Value {
		a := args[0].(*FloatV)
		if a.sym {
			unsup("Float64bits of symbolic float")
		}
		return BV(64, math.Float64bits(a.c))
	}
	intrinsics["math.Float64frombits"] = func(e *Exec, args []Value, st string) Value {
		a := args[0].(*Term)
		if !a.IsConst() {
			unsup("Float64frombits of symbolic bits")
		}
		return concF(math.Float64frombits(a.V))
	}

	// math/bits
	bitsLen := func(e *Exec, args []Value, st string) Value {
		t := args[0].(*Term)
		res := BV(64, 0)
		for i := 0; i < t.W; i++ {
			// if t >= 2^i then len >= i+1
			res = Ite(Cmp(OpULe, BV(t.W, uint64(1)<<uint(i)), t), BV(64, uint64(i+1)), res)
		}
		return res
	}
	for _, n := range []string{"Len", "Len8", "Len16", "Len32", "Len64"} {
		intrinsics["math/bits."+n] = bitsLen
		pureIntrinsics["math/bits."+n] = true
	}
	ones := func(e *Exec, args []Value, st string) Value {
		t := args[0].(*Term)
		res := BV(64, 0)
		for i := 0; i < t.W; i++ {
			res = BinBV(OpAdd, res, ZExt(Extract(t, i, 1), 64))
		}
		return res
	}
	for _, n := range []string{"OnesCount", "OnesCount8", "OnesCount16", "OnesCount32", "OnesCount64"} {
		intrinsics["math/bits."+n] = ones
		pureIntrinsics["math/bits."+n] = true
	}

	// errors / fmt
	intrinsics["fmt.Errorf"] = func(e *Exec, args []Value, st string) Value {
		s, _ := e.sprintf(mustStr(args[0], "fmt.Errorf format"), variadic(args[1]))
		return e.newError(s)
	}
	intrinsics["fmt.Sprintf"] = func(e *Exec, args []Value, st string) Value {
		s, ok := e.sprintf(mustStr(args[0], "fmt.Sprintf format"), variadic(args[1]))
		if !ok {
			e.Stubs["fmt.Sprintf with symbolic non-string argument rendered as '?' at "+st] = true
		}
		return s
	}
	intrinsics["fmt.Sprint"] = func(e *Exec, args []Value, st string) Value {
		s, _ := e.sprint(variadic(args[0]))
		return s
	}
	intrinsics["fmt.Fprintf"] = func(e *Exec, args []Value, st string) Value {
		s, _ := e.sprintf(mustStr(args[1], "fmt.Fprintf format"), variadic(args[2]))
		w := args[0].(*IfaceV)
		return e.writeTo(w, strBytes(s), st)
	}
	intrinsics["fmt.Fprintln"] = func(e *Exec, args []Value, st string) Value {
		s, _ := e.sprint(variadic(args[1]))
		w := args[0].(*IfaceV)
		return e.writeTo(w, append(strBytes(s), BV(8, '\n')), st)
	}

	// bytes.Buffer: {buf []byte, off int, lastRead}
	bufField := func(args []Value) (*StructV, *SliceV, int) {
		p := args[0].(*Ptr)
		stv := navigate(p.obj.val, p.path).(*StructV)
		sl := stv.f[0].(*SliceV)
		off := int(stv.f[1].(*Term).V)
		return stv, sl, off
	}
	bufAppend := func(e *Exec, args []Value, bs []*Term, st string) {
		p := args[0].(*Ptr)
		e.noteWrite(p.obj, st)
		stv, sl, _ := bufField(args)
		vs := make([]Value, len(bs))
		for i, b := range bs {
			vs[i] = b
		}
		stv.f[0] = e.appendVals(sl, vs, types.Typ[types.Uint8], st)
	}
	intrinsics["(*bytes.Buffer).Write"] = func(e *Exec, args []Value, st string) Value {
		bs := sliceBytes(args[1])
		bufAppend(e, args, bs, st)
		return TupleV{BV(64, uint64(len(bs))), errNil()}
	}
	intrinsics["(*bytes.Buffer).WriteString"] = func(e *Exec, args []Value, st string) Value {
		bs := strBytes(args[1])
		bufAppend(e, args, bs, st)
		return TupleV{BV(64, uint64(len(bs))), errNil()}
	}
	intrinsics["(*bytes.Buffer).WriteByte"] = func(e *Exec, args []Value, st string) Value {
		bufAppend(e, args, []*Term{args[1].(*Term)}, st)
		return errNil()
	}
	intrinsics["(*bytes.Buffer).WriteRune"] = func(e *Exec, args []Value, st string) Value {
		bs := e.encodeRune(args[1].(*Term))
		bufAppend(e, args, bs, st)
		return TupleV{BV(64, uint64(len(bs))), errNil()}
	}
	intrinsics["(*bytes.Buffer).Bytes"] = func(e *Exec, args []Value, st string) Value {
		_, sl, off := bufField(args)
		if sl.obj == nil {
			return sl
		}
		return &SliceV{obj: sl.obj, off: sl.off + off, len: sl.len - off, cap: sl.cap - off}
	}
	intrinsics["(*bytes.Buffer).Len"] = func(e *Exec, args []Value, st string) Value {
		_, sl, off := bufField(args)
		return BV(64, uint64(sl.len-off))
	}
	intrinsics["(*bytes.Buffer).String"] = func(e *Exec, args []Value, st string) Value {
		if isNil(args[0]) {
			return StrV("<nil>")
		}
		_, sl, off := bufField(args)
		return mkStr(sliceBytes(sl)[off:])
	}
	intrinsics["(*bytes.Buffer).Reset"] = func(e *Exec, args []Value, st string) Value {
		p := args[0].(*Ptr)
		e.noteWrite(p.obj, st)
		stv, sl, _ := bufField(args)
		stv.f[0] = &SliceV{obj: sl.obj, off: sl.off, len: 0, cap: sl.cap}
		stv.f[1] = BV(64, 0)
		return nil
	}

	// strings.Builder: {addr *Builder, buf []byte}
	sbAppend := func(e *Exec, args []Value, bs []*Term, st string) {
		p := args[0].(*Ptr)
		e.noteWrite(p.obj, st)
		stv := navigate(p.obj.val, p.path).(*StructV)
		vs := make([]Value, len(bs))
		for i, b := range bs {
			vs[i] = b
		}
		stv.f[1] = e.appendVals(stv.f[1].(*SliceV), vs, types.Typ[types.Uint8], st)
	}
	intrinsics["(*strings.Builder).WriteString"] = func(e *Exec, args []Value, st string) Value {
		bs := strBytes(args[1])
		sbAppend(e, args, bs, st)
		return TupleV{BV(64, uint64(len(bs))), errNil()}
	}
	intrinsics["(*strings.Builder).Write"] = func(e *Exec, args []Value, st string) Value {
		bs := sliceBytes(args[1])
		sbAppend(e, args, bs, st)
		return TupleV{BV(64, uint64(len(bs))), errNil()}
	}
	intrinsics["(*strings.Builder).WriteByte"] = func(e *Exec, args []Value, st string) Value {
		sbAppend(e, args, []*Term{args[1].(*Term)}, st)
		return errNil()
	}
	intrinsics["(*strings.Builder).WriteRune"] = func(e *Exec, args []Value, st string) Value {
		bs := e.encodeRune(args[1].(*Term))
		sbAppend(e, args, bs, st)
		return TupleV{BV(64, uint64(len(bs))), errNil()}
	}
	intrinsics["(*strings.Builder).String"] = func(e *Exec, args []Value, st string) Value {
		p := args[0].(*Ptr)
		stv := navigate(p.obj.val, p.path).(*StructV)
		return mkStr(sliceBytes(stv.f[1]))
	}
	intrinsics["(*strings.Builder).Len"] = func(e *Exec, args []Value, st string) Value {
		p := args[0].(*Ptr)
		stv := navigate(p.obj.val, p.path).(*StructV)
		return BV(64, uint64(stv.f[1].(*SliceV).len))
	}

	// bytes / strings helpers
	intrinsics["bytes.Equal"] = func(e *Exec, args []Value, st string) Value {
		a, b := sliceBytes(args[0]), sliceBytes(args[1])
		if len(a) != len(b) {
			return tFalse
		}
		r := tTrue
		for i := range a {
			r = And(r, Eq(a[i], b[i]))
		}
		return r
	}
	pureIntrinsics["bytes.Equal"] = true
	intrinsics["bytes.Compare"] = func(e *Exec, args []Value, st string) Value {
		a, b := mkStr(sliceBytes(args[0])), mkStr(sliceBytes(args[1]))
		lt := strLess(a, b, false)
		eq := e.valEq(a, b)
		return Ite(eq, BV(64, 0), Ite(lt, BV(64, ^uint64(0)), BV(64, 1)))
	}
	intrinsics["strings.Compare"] = func(e *Exec, args []Value, st string) Value {
		a, b := args[0], args[1]
		lt := strLess(a, b, false)
		eq := e.valEq(a, b)
		return Ite(eq, BV(64, 0), Ite(lt, BV(64, ^uint64(0)), BV(64, 1)))
	}
	intrinsics["strings.Contains"] = func(e *Exec, args []Value, st string) Value {
		sub := mustStr(args[1], "strings.Contains")
		if s, ok := concStr(args[0]); ok {
			return Bool(strings.Contains(s, sub))
		}
		// symbolic haystack, concrete needle
		hs := strBytes(args[0])
		r := tFalse
		for i := 0; i+len(sub) <= len(hs); i++ {
			m := tTrue
			for j := 0; j < len(sub); j++ {
				m = And(m, Eq(hs[i+j], BV(8, uint64(sub[j]))))
			}
			r = Or(r, m)
		}
		return r
	}
	intrinsics["strings.HasPrefix"] = func(e *Exec, args []Value, st string) Value {
		p := strBytes(args[1])
		s := strBytes(args[0])
		if len(p) > len(s) {
			return tFalse
		}
		r := tTrue
		for i := range p {
			r = And(r, Eq(s[i], p[i]))
		}
		return r
	}
	intrinsics["strings.HasSuffix"] = func(e *Exec, args []Value, st string) Value {
		p := strBytes(args[1])
		s := strBytes(args[0])
		if len(p) > len(s) {
			return tFalse
		}
		r := tTrue
		for i := range p {
			r = And(r, Eq(s[len(s)-len(p)+i], p[i]))
		}
		return r
	}
	intrinsics["strings.Join"] = func(e *Exec, args []Value, st string) Value {
		sep := strBytes(args[1])
		var out []*Term
		for i, el := range variadic(args[0]) {
			if i > 0 {
				out = append(out, sep...)
			}
			out = append(out, strBytes(el)...)
		}
		return mkStr(out)
	}
	intrinsics["strings.Repeat"] = func(e *Exec, args []Value, st string) Value {
		n := args[1].(*Term)
		if !n.IsConst() {
			unsup("strings.Repeat with symbolic count")
		}
		return StrV(strings.Repeat(mustStr(args[0], "strings.Repeat"), int(sext(n.V, 64))))
	}
	intrinsics["strings.ReplaceAll"] = func(e *Exec, args []Value, st string) Value {
		return StrV(strings.ReplaceAll(mustStr(args[0], "ReplaceAll"), mustStr(args[1], "ReplaceAll"), mustStr(args[2], "ReplaceAll")))
	}
	intrinsics["strings.ToUpper"] = func(e *Exec, args []Value, st string) Value {
		return StrV(strings.ToUpper(mustStr(args[0], "ToUpper")))
	}
	intrinsics["strings.ToLower"] = func(e *Exec, args []Value, st string) Value {
		return StrV(strings.ToLower(mustStr(args[0], "ToLower")))
	}
	intrinsics["strings.TrimSpace"] = func(e *Exec, args []Value, st string) Value {
		return StrV(strings.TrimSpace(mustStr(args[0], "TrimSpace")))
	}
	intrinsics["strings.Split"] = func(e *Exec, args []Value, st string) Value {
		parts := strings.Split(mustStr(args[0], "Split"), mustStr(args[1], "Split"))
		arr := &ArrayV{e: make([]Value, len(parts))}
		for i, p := range parts {
			arr.e[i] = StrV(p)
		}
		return &SliceV{obj: e.newObj(arr, st), len: len(parts), cap: len(parts)}
	}
	intrinsics["strings.Index"] = func(e *Exec, args []Value, st string) Value {
		return BV(64, uint64(int64(strings.Index(mustStr(args[0], "Index"), mustStr(args[1], "Index")))))
	}
	intrinsics["strings.IndexByte"] = func(e *Exec, args []Value, st string) Value {
		c := args[1].(*Term)
		if !c.IsConst() {
			unsup("IndexByte symbolic")
		}
		return BV(64, uint64(int64(strings.IndexByte(mustStr(args[0], "IndexByte"), byte(c.V)))))
	}
	intrinsics["strconv.Atoi"] = func(e *Exec, args []Value, st string) Value {
		return e.atoiSym(args[0])
	}
	intrinsics["strconv.Itoa"] = func(e *Exec, args []Value, st string) Value {
		n := args[0].(*Term)
		if !n.IsConst() {
			return e.fmtDecimal(n, true, false)
		}
		return StrV(strconv.Itoa(int(sext(n.V, 64))))
	}
	intrinsics["strconv.ParseFloat"] = func(e *Exec, args []Value, st string) Value {
		bsz := args[1].(*Term)
		f, err := strconv.ParseFloat(mustStr(args[0], "ParseFloat"), int(bsz.V))
		if err != nil {
			return TupleV{concF(f), e.newError(StrV(err.Error()))}
		}
		return TupleV{concF(f), errNil()}
	}
	intrinsics["strconv.Quote"] = func(e *Exec, args []Value, st string) Value {
		return StrV(strconv.Quote(mustStr(args[0], "Quote")))
	}
	uni := func(name string, f func(rune) bool) {
		intrinsics["unicode."+name] = func(e *Exec, args []Value, st string) Value {
			r := args[0].(*Term)
			if !r.IsConst() {
				r = e.subst(r)
			}
			if !r.IsConst() {
				return e.runeClassTerm(name, f, r)
			}
			return Bool(f(rune(sext(r.V, 32))))
		}
	}
	uni("IsDigit", unicode.IsDigit)
	uni("IsLetter", unicode.IsLetter)
	uni("IsSpace", unicode.IsSpace)
	uni("IsUpper", unicode.IsUpper)
	uni("IsLower", unicode.IsLower)
	uni("IsPrint", unicode.IsPrint)
	intrinsics["unicode/utf8.DecodeRuneInString"] = func(e *Exec, args []Value, st string) Value {
		if strLen(args[0]) == 0 {
			return TupleV{BV(32, 0xFFFD), BV(64, 0)}
		}
		r, n := e.decodeRune(args[0], 0)
		return TupleV{r, BV(64, uint64(n))}
	}
	intrinsics["unicode/utf8.RuneCountInString"] = func(e *Exec, args []Value, st string) Value {
		n := 0
		for i := 0; i < strLen(args[0]); {
			_, sz := e.decodeRune(args[0], i)
			i += sz
			n++
		}
		return BV(64, uint64(n))
	}
	intrinsics["unicode/utf8.RuneLen"] = func(e *Exec, args []Value, st string) Value {
		r := args[0].(*Term)
		bs := e.encodeRune(r)
		return BV(64, uint64(len(bs)))
	}
	intrinsics["unicode/utf8.ValidString"] = func(e *Exec, args []Value, st string) Value {
		for i := 0; i < strLen(args[0]); {
			r, sz := e.decodeRune(args[0], i)
			if sz == 1 && r.IsConst() && r.V == 0xFFFD {
				return tFalse
			}
			i += sz
		}
		return tTrue
	}

	// regexp (native, concrete only)
	intrinsics["regexp.MustCompile"] = func(e *Exec, args []Value, st string) Value {
		return &Ptr{obj: &Object{id: 0, val: &NativeV{v: regexp.MustCompile(mustStr(args[0], "regexp"))}, site: "regexp"}}
	}
	reOf := func(v Value) *regexp.Regexp {
		return v.(*Ptr).obj.val.(*NativeV).v.(*regexp.Regexp)
	}
	intrinsics["(*regexp.Regexp).ReplaceAllString"] = func(e *Exec, args []Value, st string) Value {
		if _, ok := concStr(args[1]); !ok {
			return e.regexpFilterSym(reOf(args[0]), args[1], mustStr(args[2], "regexp replacement"))
		}
		return StrV(reOf(args[0]).ReplaceAllString(mustStr(args[1], "regexp"), mustStr(args[2], "regexp")))
	}
	intrinsics["(*regexp.Regexp).MatchString"] = func(e *Exec, args []Value, st string) Value {
		return Bool(reOf(args[0]).MatchString(mustStr(args[1], "regexp")))
	}
	intrinsics["(*regexp.Regexp).FindStringSubmatch"] = func(e *Exec, args []Value, st string) Value {
		parts := reOf(args[0]).FindStringSubmatch(mustStr(args[1], "regexp"))
		if parts == nil {
			return &SliceV{}
		}
		arr := &ArrayV{e: make([]Value, len(parts))}
		for i, p := range parts {
			arr.e[i] = StrV(p)
		}
		return &SliceV{obj: e.newObj(arr, st), len: len(parts), cap: len(parts)}
	}

	// x/text/language (native, opaque)
	intrinsics["golang.org/x/text/language.MustParse"] = func(e *Exec, args []Value, st string) Value {
		return &NativeV{v: language.MustParse(mustStr(args[0], "language.MustParse"))}
	}
	intrinsics["golang.org/x/text/language.Parse"] = func(e *Exec, args []Value, st string) Value {
		t, err := language.Parse(mustStr(args[0], "language.Parse"))
		if err != nil {
			return TupleV{&NativeV{v: t}, e.newError(StrV(err.Error()))}
		}
		return TupleV{&NativeV{v: t}, errNil()}
	}
	intrinsics["golang.org/x/text/language.Make"] = func(e *Exec, args []Value, st string) Value {
		return &NativeV{v: language.Make(mustStr(args[0], "language.Make"))}
	}
	intrinsics["golang.org/x/text/language.NewMatcher"] = func(e *Exec, args []Value, st string) Value {
		var tags []language.Tag
		for _, v := range variadic(args[0]) {
			tags = append(tags, tagOf(v))
		}
		return &IfaceV{t: types.Typ[types.Invalid], v: &NativeV{v: language.NewMatcher(tags)}}
	}
	intrinsics["(golang.org/x/text/language.Tag).String"] = func(e *Exec, args []Value, st string) Value {
		return StrV(tagOf(args[0]).String())
	}
	intrinsics["(golang.org/x/text/language.Tag).Raw"] = func(e *Exec, args []Value, st string) Value {
		b, s, r := tagOf(args[0]).Raw()
		return TupleV{&NativeV{v: b}, &NativeV{v: s}, &NativeV{v: r}}
	}
	intrinsics["(golang.org/x/text/language.Tag).Script"] = func(e *Exec, args []Value, st string) Value {
		s, c := tagOf(args[0]).Script()
		return TupleV{&NativeV{v: s}, &NativeV{v: c}}
	}
	intrinsics["(golang.org/x/text/language.Tag).Base"] = func(e *Exec, args []Value, st string) Value {
		s, c := tagOf(args[0]).Base()
		return TupleV{&NativeV{v: s}, &NativeV{v: c}}
	}
	intrinsics["(golang.org/x/text/language.Tag).Extension"] = func(e *Exec, args []Value, st string) Value {
		c := args[1].(*Term)
		ext, ok := tagOf(args[0]).Extension(byte(c.V))
		return TupleV{&NativeV{v: ext}, Bool(ok)}
	}
	intrinsics["(golang.org/x/text/language.Tag).IsRoot"] = func(e *Exec, args []Value, st string) Value {
		return Bool(tagOf(args[0]).IsRoot())
	}
	intrinsics["(golang.org/x/text/language.Base).String"] = func(e *Exec, args []Value, st string) Value {
		return StrV(args[0].(*NativeV).v.(language.Base).String())
	}
	intrinsics["(golang.org/x/text/language.Script).String"] = func(e *Exec, args []Value, st string) Value {
		return StrV(args[0].(*NativeV).v.(language.Script).String())
	}
	intrinsics["(golang.org/x/text/language.Region).String"] = func(e *Exec, args []Value, st string) Value {
		return StrV(args[0].(*NativeV).v.(language.Region).String())
	}
	intrinsics["(golang.org/x/text/language.Extension).String"] = func(e *Exec, args []Value, st string) Value {
		return StrV(args[0].(*NativeV).v.(language.Extension).String())
	}

	// time
	intrinsics["time.Now"] = func(e *Exec, args []Value, st string) Value {
		e.Stubs["time.Now = fixed instant 2000-01-01"] = true
		unsup("time.Now")
		return nil
	}
	intrinsics["time.initLocal"] = func(e *Exec, args []Value, st string) Value {
		// an empty localLoc behaves as UTC (time.Location.lookup); native replays run with TZ=UTC
		e.Stubs["time.Local = UTC (native replays run with TZ=UTC)"] = true
		return nil
	}
	intrinsics["os.Open"] = func(e *Exec, args []Value, st string) Value {
		unsup("os.Open")
		return nil
	}
}

func tagOf(v Value) language.Tag {
	switch x := v.(type) {
	case *NativeV:
		return x.v.(language.Tag)
	case *StructV:
		// zero value of language.Tag created by zeroOf
		return language.Tag{}
	}
	panic(fmt.Sprintf("tagOf %T", v))
}

func (e *Exec) nativeInvoke(nv *NativeV, method string, args []Value, st string) Value {
	switch x := nv.v.(type) {
	case language.Matcher:
		if method == "Match" {
			var tags []language.Tag
			for _, v := range variadic(args[0]) {
				tags = append(tags, tagOf(v))
			}
			t, idx, conf := x.Match(tags...)
			return TupleV{&NativeV{v: t}, BV(64, uint64(int64(idx))), BV(64, uint64(conf))}
		}
	}
	unsup("native invoke %T.%s", nv.v, method)
	return nil
}

// writeTo calls Write on an io.Writer interface value.
func (e *Exec) writeTo(w *IfaceV, bs []*Term, st string) Value {
	sl := e.bytesToSlice(bs, st)
	ms := e.prog.MethodSets.MethodSet(w.t)
	for i := 0; i < ms.Len(); i++ {
		if ms.At(i).Obj().Name() == "Write" {
			m := e.prog.MethodValue(ms.At(i))
			if h, ok := intrinsics[m.String()]; ok {
				return h(e, []Value{w.v, sl}, st)
			}
			return e.callFn(m, []Value{w.v, sl}, nil)
		}
	}
	panic("writeTo: no Write method on " + w.t.String())
}
