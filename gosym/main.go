package main

import (
	"encoding/json"
	"flag"
	"fmt"
	"os"
	"os/signal"
	"path/filepath"
	"runtime/debug"
	"runtime/pprof"
	"sort"
	"strings"
	"syscall"
	"time"

	"golang.org/x/tools/go/packages"
	"golang.org/x/tools/go/ssa"
	"golang.org/x/tools/go/ssa/ssautil"
)

type HarnessResult struct {
	Name        string         `json:"name"`
	Status      string         `json:"status"` // ok, violation, inconclusive, error
	Error       string         `json:"error,omitempty"`
	Paths       int            `json:"paths"`
	Instrs      int64          `json:"instrs"`
	Queries     int            `json:"queries"`
	Sat         int            `json:"sat"`
	Unsat       int            `json:"unsat"`
	Unknown     int            `json:"unknown"`
	SolverErr   int            `json:"solver_errors"`
	SolverS     float64        `json:"solver_s"`
	MaxQueryS   float64        `json:"max_query_s"`
	WallS       float64        `json:"wall_s"`
	Obligations int            `json:"obligations"`
	Discharged  int            `json:"discharged"`
	ObUnknown   int            `json:"obligation_unknown"`
	BrUnknown   int            `json:"branch_unknown"`
	Reached     map[string]int `json:"reached"`
	Findings    []*Finding     `json:"findings"`
	Functions   []string       `json:"functions"`
	Samples     []string       `json:"samples"`
	Stubs       []string       `json:"stubs"`
	Notes       []string       `json:"notes"`
	MaxUnwind   int            `json:"max_unwind"`
	Cuts        int            `json:"paths_cut"`
	Exhausted   string         `json:"exhausted,omitempty"`
	Merges      int            `json:"merges"`
	Observed    []string       `json:"observed,omitempty"`
	Pending     int            `json:"pending"`
	PathSamples []PathSample   `json:"path_samples,omitempty"`
	Uniq        int            `json:"unique_value_substitutions"`
	Terms       int            `json:"terms"`
}

type Output struct {
	Pkg       string           `json:"pkg"`
	LoadS     float64          `json:"load_s"`
	InitS     float64          `json:"init_s"`
	Solver    string           `json:"solver"`
	Harnesses []*HarnessResult `json:"harnesses"`
}

func keys(m map[string]bool) []string {
	var ks []string
	for k := range m {
		ks = append(ks, k)
	}
	sort.Strings(ks)
	return ks
}

func main() {
	repo := flag.String("repo", "/repo", "repository root")
	pkgPath := flag.String("pkg", ".", "package directory relative to repo")
	harnessFiles := flag.String("files", "", "comma separated overlay files (harness + api)")
	funcs := flag.String("funcs", "", "comma separated harness functions")
	out := flag.String("out", "", "result json")
	unwind := flag.Int("unwind", 100000, "default per-frame loop unwinding bound")
	maxPaths := flag.Int("maxpaths", 0, "path budget per harness")
	timeout := flag.Int("timeout", 0, "wall budget per harness (s)")
	maxInstr := flag.Int64("maxinstr", 200000000, "instruction budget per path")
	solver := flag.String("solver", "z3", "z3 | z3-new | cvc5")
	qtimeout := flag.Int("qtimeout", 20000, "per query timeout ms")
	verbose := flag.Bool("v", false, "verbose")
	shard := flag.Int("shard", -1, "fix the first verifChoose to this value")
	concrete := flag.String("concrete", "", "json file with a list of vectors: run concretely")
	noMerge := flag.Bool("nomerge", false, "disable if-conversion")
	smtlog := flag.String("smtlog", "", "log solver input to file")
	paramStr := flag.String("params", "", "k=v,k=v harness parameters")
	nsamples := flag.Int("samples", 0, "number of completed paths whose model is exported for translator validation")
	cpuprof := flag.String("cpuprofile", "", "write cpu profile")
	flag.Parse()
	if *cpuprof != "" {
		f, _ := os.Create(*cpuprof)
		pprof.StartCPUProfile(f)
		defer pprof.StopCPUProfile()
	}
	debug.SetGCPercent(400)

	t0 := time.Now()
	overlay := map[string][]byte{}
	dir := filepath.Join(*repo, *pkgPath)
	for _, f := range strings.Split(*harnessFiles, ",") {
		if f == "" {
			continue
		}
		src, err := os.ReadFile(f)
		if err != nil {
			fmt.Fprintln(os.Stderr, "cannot read", f, err)
			os.Exit(2)
		}
		overlay[filepath.Join(dir, "zz_verif_"+filepath.Base(f))] = src
	}
	cfg := &packages.Config{Mode: packages.LoadAllSyntax, Dir: *repo, BuildFlags: []string{"-tags=verif"}, Overlay: overlay,
		Env: append(os.Environ(), "GOFLAGS=-mod=mod", "GOPROXY=off", "GOSUMDB=off", "GOTOOLCHAIN=local")}
	pkgs, err := packages.Load(cfg, "./"+*pkgPath)
	if err != nil {
		fmt.Fprintln(os.Stderr, "load:", err)
		os.Exit(2)
	}
	if packages.PrintErrors(pkgs) > 0 {
		os.Exit(2)
	}
	prog, spkgs := ssautil.AllPackages(pkgs, ssa.InstantiateGenerics)
	prog.Build()
	res := &Output{Pkg: *pkgPath, Solver: *solver, LoadS: time.Since(t0).Seconds()}

	// package initialisation (concrete)
	t1 := time.Now()
	ie := NewExec(prog)
	ie.unwind = 1 << 30
	ie.MaxUnwind = 0
	ie.initPhase = true
	func() {
		defer func() {
			if r := recover(); r != nil {
				fmt.Fprintf(os.Stderr, "package init failed: %v%s\n", r, ie.stackTrace())
				if *verbose {
					debug.PrintStack()
				}
				os.Exit(2)
			}
		}()
		ie.unwind = 1 << 30
		ie.callFn(spkgs[0].Func("init"), nil, nil)
	}()
	res.InitS = time.Since(t1).Seconds()
	initObj, initMap := ie.objN, ie.mapN
	if *verbose {
		fmt.Fprintf(os.Stderr, "load %.1fs init %.1fs (%d objects, %d instrs)\n", res.LoadS, res.InitS, initObj, ie.Instrs)
	}

	var vectors [][]uint64
	if *concrete != "" {
		b, err := os.ReadFile(*concrete)
		if err != nil {
			panic(err)
		}
		if err := json.Unmarshal(b, &vectors); err != nil {
			panic(err)
		}
	}

	params := map[string]int{}
	for _, kv := range strings.Split(*paramStr, ",") {
		if i := strings.Index(kv, "="); i > 0 {
			var v int
			fmt.Sscanf(kv[i+1:], "%d", &v)
			params[kv[:i]] = v
		}
	}
	exit := 0
	for _, name := range strings.Split(*funcs, ",") {
		h := spkgs[0].Func(name)
		hr := &HarnessResult{Name: name}
		res.Harnesses = append(res.Harnesses, hr)
		if h == nil {
			hr.Status = "error"
			hr.Error = "no such harness function"
			exit = 2
			continue
		}
		e := NewExec(prog)
		e.cfn = ie.cfn
		e.initDone, e.initMap = initObj, initMap
		e.objN, e.mapN = initObj, initMap
		e.verbose = *verbose
		e.maxPaths = *maxPaths
		e.maxInstr = *maxInstr
		e.firstChoice = *shard
		e.noMerge = *noMerge
		e.params = params
		e.wantSamples = *nsamples
		e.defaultUnwind = *unwind
		if *timeout > 0 {
			e.deadline = time.Now().Add(time.Duration(*timeout) * time.Second)
		}
		th := time.Now()
		if *verbose {
			// debugging aid: SIGUSR1 prints where the interpreter currently is
			sig := make(chan os.Signal, 1)
			signal.Notify(sig, syscall.SIGUSR1)
			go func() {
				for range sig {
					q := 0
					if e.s != nil {
						q = e.s.Queries
					}
					fmt.Fprintf(os.Stderr, "STATUS paths=%d instrs=%d pathinstrs=%d queries=%d site=%s%s\n", e.Paths, e.Instrs, e.instrPath, q, e.curSite, e.stackTrace())
				}
			}()
		}
		func() {
			defer func() {
				if r := recover(); r != nil {
					hr.Status = "error"
					switch x := r.(type) {
					case unsupported:
						hr.Error = "unsupported: " + x.msg + e.stackTrace()
					default:
						hr.Error = fmt.Sprint(r) + e.stackTrace()
						if *verbose {
							debug.PrintStack()
						}
					}
				}
			}()
			if vectors != nil {
				for _, vec := range vectors {
					e.concrete = vec
					if vec == nil {
						e.concrete = []uint64{}
					}
					e.trace = nil
					end := e.runPath(h)
					e.Paths++
					hr.Observed = append(hr.Observed, strings.Join(e.observed, ";")+" => "+end)
				}
				// findings in concrete mode are reported via Observed/Findings
			} else {
				lg := ""
				if *smtlog != "" {
					lg = *smtlog + "." + name
				}
				e.s = NewSolver(*solver, *qtimeout, lg)
				defer e.s.Close()
				if *verbose {
					slow := map[string]time.Duration{}
					slowN := map[string]int{}
					e.s.SlowHook = func(d time.Duration) {
						slow[e.curSite] += d
						slowN[e.curSite]++
						if d > 2*time.Second {
							fmt.Fprintf(os.Stderr, "  slow query %.1fs at %s (path %d)%s\n", d.Seconds(), e.curSite, e.Paths, e.stackTrace())
						}
					}
					defer func() {
						for k, v := range slow {
							fmt.Fprintf(os.Stderr, "  slow queries at %s: %d, %.2fs\n", k, slowN[k], v.Seconds())
						}
					}()
				}
				e.Explore(h)
			}
		}()
		hr.WallS = time.Since(th).Seconds()
		hr.Paths, hr.Instrs = e.Paths, e.Instrs
		if e.s != nil {
			hr.Queries, hr.Sat, hr.Unsat, hr.Unknown, hr.SolverErr = e.s.Queries, e.s.Sat, e.s.Unsat, e.s.Unknown, e.s.Errors
			hr.SolverS, hr.MaxQueryS = e.s.Time.Seconds(), e.s.MaxQ.Seconds()
			if *verbose {
				fmt.Fprintf(os.Stderr, "  get-value: %d calls %.2fs\n", e.s.Gets, e.s.GetTime.Seconds())
			}
		}
		hr.Obligations, hr.Discharged, hr.ObUnknown, hr.BrUnknown = e.Obligations, e.Discharged, e.ObUnknown, e.BrUnknown
		hr.Reached = e.Reached
		hr.Samples = e.Samples
		hr.Stubs = keys(e.Stubs)
		hr.Notes = keys(e.Assumes)
		hr.MaxUnwind = e.MaxUnwind
		hr.Cuts = e.Cuts
		hr.Exhausted = e.Exhausted
		hr.Merges = e.SpecOK
		hr.Pending = len(e.work)
		hr.PathSamples = e.PathSamples
		hr.Uniq = e.Uniq
		hr.Terms = termCount
		var fk []string
		for k := range e.Findings {
			fk = append(fk, k)
		}
		sort.Strings(fk)
		for _, k := range fk {
			hr.Findings = append(hr.Findings, e.Findings[k])
		}
		for f := range e.funcsSeen {
			p := f.Pkg
			if p == nil && f.Origin() != nil {
				p = f.Origin().Pkg
			}
			if p != nil && strings.HasPrefix(p.Pkg.Path(), "seehuhn.de/go/") && !strings.HasPrefix(f.Name(), "Verif") && !strings.HasPrefix(f.Name(), "verif") {
				pos := prog.Fset.Position(f.Pos())
				hr.Functions = append(hr.Functions, fmt.Sprintf("%s (%s:%d)", f.String(), shortFile(pos.Filename), pos.Line))
			}
		}
		sort.Strings(hr.Functions)
		if hr.Status == "" {
			switch {
			case len(hr.Findings) > 0:
				hr.Status = "violation"
			case hr.ObUnknown > 0 || hr.SolverErr > 0:
				hr.Status = "inconclusive"
			case hr.Exhausted != "":
				hr.Status = "partial"
			default:
				hr.Status = "ok"
			}
		}
		if *verbose || true {
			fmt.Fprintf(os.Stderr, "%s: %s paths=%d oblig=%d/%d queries=%d (sat %d unsat %d unk %d) solver=%.1fs wall=%.1fs merges=%d reached=%v findings=%d %s %s\n",
				name, hr.Status, hr.Paths, hr.Discharged, hr.Obligations, hr.Queries, hr.Sat, hr.Unsat, hr.Unknown, hr.SolverS, hr.WallS, hr.Merges, hr.Reached, len(hr.Findings), hr.Exhausted, hr.Error)
			for _, f := range hr.Findings {
				fmt.Fprintf(os.Stderr, "   FINDING [%s] %s @ %s class=%q\n", f.Kind, f.What, f.Site, f.Class)
			}
		}
		if hr.Status == "error" {
			exit = 2
		}
	}
	b, _ := json.MarshalIndent(res, "", " ")
	if *out != "" {
		os.WriteFile(*out, b, 0o644)
	} else {
		os.Stdout.Write(b)
	}
	if *cpuprof != "" {
		pprof.StopCPUProfile()
	}
	os.Exit(exit)
}
