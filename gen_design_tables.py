#!/usr/bin/env python3
"""Regenerates the seeded-changes table of DESIGN.md from seeded/*/meta.json."""
import glob, json, os, re
V = os.path.dirname(os.path.abspath(__file__))
rows = []
det = tot = 0
for d in sorted(glob.glob(os.path.join(V, "seeded", "*"))):
    m = json.load(open(os.path.join(d, "meta.json")))
    dq = (m.get("detection") or {})
    q = dq.get("quick")
    t = dq.get("thorough")
    for k, v in dq.items():
        if " via " in k and v.get("detected"):
            # detected by the check of another property
            v = dict(v)
            v["violations"] = [x + " (check %s)" % k.split(" via ")[1] for x in v["violations"]]
            if not (q and q.get("detected")):
                q = v
    def fmt(x):
        if not x:
            return "not run"
        if x["detected"]:
            hs = sorted({re.search(r"(VerifH_\w+)", v).group(1) for v in x["violations"] if re.search(r"VerifH_\w+", v)})
            return "**detected** (" + ", ".join(hs[:3]) + ")"
        return "missed (exit %s)" % x["exit"]
    tot += 1
    if (q and q["detected"]) or (t and t["detected"]):
        det += 1
    rows.append("| %s | %s | %s | %s | %s |" % (os.path.basename(d), (m.get("summary") or "").replace("|", "/")[:150], (m.get("needs") or "").replace("|", "/")[:110], fmt(q), fmt(t) if t else ""))
text = ["## I.9 Seeded breaking changes: which checks catch which changes", "",
        "Fresh sub-agents were given only the text of a property and a scratch worktree, and asked for changes that break the property while compiling and passing the existing suite, needing something specific to manifest.  Each change was re-verified here (demo passes on the clean tree, suite passes with the change, demo fails with the change) before it was kept under `seeded/`.  `seed_eval.py run` applies each patch to a scratch worktree of /repo's HEAD, runs the property's registered quick check against it (VERIF_REPO / VERIF_OUT, so neither /repo nor evidence/ is touched) and records the outcome; the table below is from one complete re-evaluation of all changes on the final tree (harnesses named are the ones that fired; several harnesses are shared between properties).",
        "", "%d of %d kept changes are detected (VIOLATION, exit 1) by the registered checks." % (det, tot), "",
        "| change | what it does | needs | quick tier | thorough tier |", "|---|---|---|---|---|"] + rows
s = open(os.path.join(V, "DESIGN.md")).read()
block = "<!-- SEEDED -->\n" + "\n".join(text) + "\n<!-- /SEEDED -->"
if "<!-- /SEEDED -->" in s:
    s = re.sub(r"<!-- SEEDED -->.*?<!-- /SEEDED -->", lambda m: block, s, flags=re.S)
else:
    s = s.replace("<!-- SEEDED -->", block)
open(os.path.join(V, "DESIGN.md"), "w").write(s)
print("seeded table: %d/%d detected" % (det, tot))
