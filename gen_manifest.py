#!/usr/bin/env python3
"""Regenerates MANIFEST.json from checks_config.py (claimed properties) and NA list."""
import json, os, sys
sys.path.insert(0, os.path.dirname(os.path.abspath(__file__)))
import checks_config

NA = checks_config.NOT_APPLICABLE
checks = []
for pid in sorted(checks_config.CHECKS):
    spec = checks_config.CHECKS[pid]
    checks.append({
        "property_id": pid,
        "quick_cmd": "./check %s --tier quick" % pid,
        "thorough_cmd": "./check %s --tier thorough" % pid,
        "evidence_file": "evidence/%s.json" % pid,
        "replay_cmd_template": "./check %s --replay {path}" % pid,
        "engine": "gosym",
        "level_claimed": {
            "category": "model_checking",
            "text": spec.get("level_text", "Bounded symbolic execution of the real SSA of the functions the property is anchored in: inputs are SMT bit-vector variables, every harness assertion and every implicit runtime check (index, slice, nil, division, make, explicit panic, loop unwinding) is an SMT query over all values within the stated bounds; counterexamples are replayed natively before being reported. Holds for all inputs within the bounds listed in the evidence, says nothing outside them."),
            "design_ref": spec.get("design_ref", "DESIGN.md Part I, I.3 (row %s) as built; Part II, section 5 %s for the original plan" % (pid, pid)),
        },
        "level_note": spec.get("level_note", "Trusted: go/ssa (x/tools v0.29.0), gosym interpreter and intrinsic models (validated per run by replaying solver-produced path inputs and random mutants natively and in the engine's concrete mode), z3 5.1.0. Bounds: " + spec.get("bounds", {}).get("quick", "")),
        "technique": spec.get("technique", "SMT-based bounded symbolic execution of the real Go SSA (gosym + z3 5.1.0; the query log of one harness per run re-decided by z3 4.8.12 and cvc5), differential against specification reference models, native replay of solver models before anything is reported"),
    })
m = {
    "version": 1,
    "setup_cmd": "cd gosym && GOFLAGS=-mod=mod GOPROXY=off GOSUMDB=off GOTOOLCHAIN=local go build -o ../bin/gosym . && cd .. && ./check --selftest",
    "hooks": {
        "guard": "verif",
        "enable": "harness files are injected as in-package overlays (go/packages Overlay for analysis, go test -overlay -tags verif for native replay); /repo itself carries no hook code",
        "baseline_off_cmd": "cd /repo && go test -mod=mod -json -vet=off -count=1 -timeout 25m ./...",
        "source_commits": [],
        "add_only": True,
    },
    "engines": [{"name": "gosym", "path": "gosym/", "serves_properties": sorted(checks_config.CHECKS),
                 "kind_free_text": "purpose-built symbolic executor for Go SSA (x/tools go/ssa) with SMT-LIB2 back end (z3 -in), re-execution DFS, if-conversion, native replay"}],
    "checks": checks,
    "not_applicable": [{"property_id": k, "reason": v} for k, v in sorted(NA.items()) if k not in checks_config.CHECKS],
    "notes": "See DESIGN.md. ./check <id> --tier quick|thorough; evidence/<id>.json is rewritten on every run; known_findings.json lists recorded/fixed genuine defects.",
}
json.dump(m, open(os.path.join(os.path.dirname(os.path.abspath(__file__)), "MANIFEST.json"), "w"), indent=1)
print("MANIFEST.json: %d checks, %d not applicable" % (len(checks), len(m["not_applicable"])))
